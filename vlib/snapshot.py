"""Public-accessor snapshots of a universe (identity-numbered) for before/after comparison."""

from __future__ import annotations

import onnx_ir as ir


def _md(d):
    try:
        return tuple(sorted(d.items()))
    except Exception:
        return ("<unsortable>", repr(d))


def _attr(u, a):
    try:
        if a.is_ref():
            return (a.name, str(a.type), "ref", a.ref_attr_name, a.doc_string)
        if a.type == ir.AttributeType.GRAPH:
            return (a.name, "GRAPH", u.idx(a.value), a.doc_string)
        if a.type == ir.AttributeType.GRAPHS:
            return (a.name, "GRAPHS", tuple(u.idx(g) for g in a.value), a.doc_string)
        if a.type == ir.AttributeType.TENSOR:
            t = a.value
            return (a.name, "TENSOR", str(t.dtype), tuple(t.shape), t.tobytes(), a.doc_string)
        return (a.name, str(a.type), repr(a.value), a.doc_string)
    except Exception as e:
        return (getattr(a, "name", "?"), "ERR", type(e).__name__)


def _type(t):
    if t is None:
        return None
    return (type(t).__name__, repr(t), getattr(t, "denotation", None), id(t))


def _shape(s):
    if s is None:
        return None
    dims = []
    for i, d in enumerate(s.dims):
        dims.append((repr(d), s.get_denotation(i)))
    return (tuple(dims), s.frozen, id(s))


def snap_value(u, v, with_ids=True):
    t = v.const_value
    ty = _type(v.type)
    sh = _shape(v.shape)
    if not with_ids:
        ty = ty[:3] if ty else None
        sh = sh[:2] if sh else None
    return (
        "V",
        v.name,
        ty,
        sh,
        (u.idx(t), getattr(t, "name", None)) if t is not None else None,
        v.doc_string,
        _md(v.metadata_props),
        v.is_graph_input(),
        v.is_graph_output(),
        v.is_initializer(),
        u.idx(v.graph),
        u.idx(v.producer()),
        v.index(),
        tuple((u.idx(n), i) for n, i in v.uses()),
    )


def snap_node(u, n):
    return (
        "N",
        n.name,
        n.domain,
        n.op_type,
        n.overload,
        n.version,
        n.doc_string,
        _md(n.metadata_props),
        tuple(_attr(u, a) for a in n.attributes.values()),
        tuple(u.idx(v) for v in n.inputs),
        tuple(u.idx(v) for v in n.outputs),
        u.idx(n.graph),
        _devcfg(u, n),
    )


def _devcfg(u, n):
    out = []
    if not n.device_configurations:
        return ()
    for dc in n.device_configurations:
        specs = []
        for s in dc.sharding_specs:
            specs.append((u.idx(s.value), repr(s.device), repr(s.index_to_device_group_map), repr(s.sharded_dims)))
        out.append((getattr(dc.configuration, "name", None), id(dc.configuration), dc.pipeline_stage, tuple(specs)))
    return tuple(out)


def snap_graph(u, g):
    return (
        "G",
        g.name,
        g.doc_string,
        _md(g.opset_imports),
        _md(g.metadata_props),
        tuple(u.idx(v) for v in g.inputs),
        tuple(u.idx(v) for v in g.outputs),
        tuple((k, u.idx(v)) for k, v in g.initializers.items()),
        tuple(u.idx(n) for n in g),
    )


def snap_function(u, f):
    return (
        "F",
        f.name,
        f.domain,
        f.overload,
        f.doc_string,
        _md(f.opset_imports),
        _md(f.metadata_props),
        tuple(_attr(u, a) for a in f.attributes.values()),
        u.idx(f.graph),
    )


def take(u, with_ids=True):
    """Snapshot of every registered object.  Registers newly reachable objects first."""
    u.sweep()
    out = []
    for g in u.graphs:
        out.append(snap_graph(u, g))
    for h in getattr(u, "handles", ()):
        if isinstance(h, ir.Function):
            out.append(snap_function(u, h))
    for n in u.nodes:
        out.append(snap_node(u, n))
    for v in u.values:
        out.append(snap_value(u, v, with_ids))
    for t in u.tensors:
        out.append(("T", getattr(t, "name", None)))
    return out


def diff(a, b, limit=4):
    """Human-readable difference between two snapshots."""
    msgs = []
    if len(a) != len(b):
        msgs.append(f"object count {len(a)} -> {len(b)}")
    for i, (x, y) in enumerate(zip(a, b)):
        if x != y:
            fields = [j for j, (p, q) in enumerate(zip(x, y)) if p != q]
            msgs.append(f"obj#{i} {x[0]}({x[1]!r}) fields {fields}: {[x[j] for j in fields]!r} -> {[y[j] for j in fields]!r}")
            if len(msgs) >= limit:
                break
    return "; ".join(msgs)[:900]


def diff_fields(a, b):
    """Set of (kind, field-index) that differ; used for bucket keys."""
    out = set()
    if len(a) != len(b):
        out.add(("count", 0))
    for x, y in zip(a, b):
        if x != y:
            for j, (p, q) in enumerate(zip(x, y)):
                if p != q:
                    out.add((x[0], j))
    return out

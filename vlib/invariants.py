"""C01 oracle: global use-def / ownership invariants, written against public accessors only.

check_all(u) -> list of (clause_id, message).  `u` is a universe-like object with
.graphs, .nodes, .values (all objects of interest) and optionally .handles (Functions).
"""

from __future__ import annotations

import onnx_ir as ir


def _nm(x):
    try:
        return f"{type(x).__name__}({getattr(x, 'name', None)!r})"
    except Exception:
        return type(x).__name__


def check_all(u, limit=8):
    errs = []

    def err(clause, msg):
        if len(errs) < limit:
            errs.append((clause, msg))

    values = list(u.values)
    nodes = list(u.nodes)
    graphs = list(u.graphs)

    # ---- I1 uses <-> inputs ------------------------------------------------------
    for v in values:
        uses = list(v.uses())
        seen = set()
        for n, i in uses:
            key = (id(n), i)
            if key in seen:
                err("I1-dup-use", f"{_nm(v)} lists use ({_nm(n)},{i}) twice")
            seen.add(key)
            ins = n.inputs
            if not (isinstance(i, int) and 0 <= i < len(ins)) or ins[i] is not v:
                err("I1-stale-use", f"{_nm(v)} lists use ({_nm(n)},{i}) but node does not hold it there")
        cons = list(v.consumers())
        exp = []
        for n, _ in uses:
            if not any(n is e for e in exp):
                exp.append(n)
        if len(cons) != len(exp) or any(a is not b for a, b in zip(cons, exp)):
            err("I1-consumers", f"{_nm(v)}.consumers() disagrees with uses()")
    for n in nodes:
        for i, v in enumerate(n.inputs):
            if v is None:
                continue
            if not any(un is n and ui == i for un, ui in v.uses()):
                err("I1-missing-use", f"{_nm(n)}.inputs[{i}] is {_nm(v)} but the value does not list that use")
        preds = list(n.predecessors())
        exp = []
        for v in n.inputs:
            if v is not None and v.producer() is not None and not any(v.producer() is e for e in exp):
                exp.append(v.producer())
        if len(preds) != len(exp) or any(a is not b for a, b in zip(preds, exp)):
            err("I1-predecessors", f"{_nm(n)}.predecessors() disagrees with inputs' producers")
        succ = list(n.successors())
        exp = []
        for o in n.outputs:
            for un, _ in o.uses():
                if not any(un is e for e in exp):
                    exp.append(un)
        if len(succ) != len(exp) or any(a is not b for a, b in zip(succ, exp)):
            err("I1-successors", f"{_nm(n)}.successors() disagrees with outputs' uses")

    # ---- I2 outputs <-> producer ----------------------------------------------------
    for n in nodes:
        for i, o in enumerate(n.outputs):
            if o.producer() is not n or o.index() != i:
                err(
                    "I2-output-producer",
                    f"{_nm(n)}.outputs[{i}]={_nm(o)} reports producer {_nm(o.producer())} index {o.index()}",
                )
    for v in values:
        p = v.producer()
        if p is not None:
            i = v.index()
            outs = p.outputs
            if not (isinstance(i, int) and 0 <= i < len(outs) and outs[i] is v):
                err("I2-producer-output", f"{_nm(v)} names producer {_nm(p)} index {i} but is not that output")

    # ---- I3 node.graph <-> membership -------------------------------------------------
    members = {}
    for g in graphs:
        lst = list(g)
        members[id(g)] = lst
        ids = [id(n) for n in lst]
        if len(set(ids)) != len(ids):
            err("I3-dup-member", f"graph {_nm(g)} contains a node twice")
        for n in lst:
            if n.graph is not g:
                err("I3-member-graph", f"graph {_nm(g)} contains {_nm(n)} whose .graph is {_nm(n.graph)}")
        if len(g) != len(lst):
            err("I3-len", f"len({_nm(g)})={len(g)} but iteration yields {len(lst)}")
        else:
            for i in range(len(lst)):
                try:
                    if g[i] is not lst[i] or g[i - len(lst)] is not lst[i]:
                        err("I3-index", f"{_nm(g)}[{i}] disagrees with iteration")
                except Exception as e:
                    err("I3-index", f"{_nm(g)}[{i}] raised {type(e).__name__}")
        rev = list(reversed(g))
        if len(rev) != len(lst) or any(a is not b for a, b in zip(rev, reversed(lst))):
            err("I3-reversed", f"reversed({_nm(g)}) disagrees with iteration")
    for n in nodes:
        g = n.graph
        if g is not None:
            lst = members.get(id(g))
            if lst is None:
                lst = list(g)
            cnt = sum(1 for m in lst if m is n)
            if cnt != 1:
                err("I3-graph-member", f"{_nm(n)}.graph is {_nm(g)} which contains it {cnt} times")
            if (n in g) != (cnt >= 1):
                err("I3-contains", f"`node in graph` disagrees with iteration for {_nm(n)}")
    for h in getattr(u, "handles", ()):
        if isinstance(h, ir.Function):
            lf, lg = list(h), list(h.graph)
            if len(h) != len(lg) or len(lf) != len(lg) or any(a is not b for a, b in zip(lf, lg)):
                err("I3-function-view", "Function sequence disagrees with its graph")

    # ---- I4 roles ---------------------------------------------------------------------
    in_of, out_of, init_of = {}, {}, {}
    for g in graphs:
        for v in g.inputs:
            in_of.setdefault(id(v), []).append(g)
        for v in g.outputs:
            out_of.setdefault(id(v), []).append(g)
        for k, v in g.initializers.items():
            init_of.setdefault(id(v), []).append(g)
            if k != v.name:
                err("I4-init-key", f"initializer stored under {k!r} has name {v.name!r} in {_nm(g)}")
    for v in values:
        gi, go, gn = in_of.get(id(v), []), out_of.get(id(v), []), init_of.get(id(v), [])
        if v.is_graph_input() != bool(gi):
            err("I4-input-flag", f"{_nm(v)}.is_graph_input()={v.is_graph_input()} but it is in {len(gi)} inputs lists")
        if v.is_graph_output() != bool(go):
            err("I4-output-flag", f"{_nm(v)}.is_graph_output()={v.is_graph_output()} but it is in {len(go)} outputs lists")
        if v.is_initializer() != bool(gn):
            err("I4-init-flag", f"{_nm(v)}.is_initializer()={v.is_initializer()} but it is in {len(gn)} initializer maps")
        owners = []
        for g in gi + go + gn:
            if not any(g is o for o in owners):
                owners.append(g)
        if len(owners) > 1:
            err("I4-multi-owner", f"{_nm(v)} is owned by {len(owners)} graphs")
        elif len(owners) == 1:
            if v.graph is not owners[0]:
                err("I4-graph", f"{_nm(v)}.graph is {_nm(v.graph)} but it is owned by {_nm(owners[0])}")
        else:
            p = v.producer()
            exp = p.graph if p is not None else None
            if v.graph is not exp:
                err("I4-graph-unowned", f"{_nm(v)} is in no collection but .graph is {_nm(v.graph)} (expected {_nm(exp)})")
        if (gi or gn) and v.producer() is not None:
            err("I4-producer", f"{_nm(v)} is a graph input/initializer but has producer {_nm(v.producer())}")
    return errs

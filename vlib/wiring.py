"""Independent connectivity oracle: does a deserialized IR model wire every node input to the definition the ONNX
scoping rule names?

The proto side is resolved here, by the rule of the ONNX specification alone (a name refers to the innermost enclosing
graph that defines it as input, initializer or node output); the IR side is read through public accessors
(`Value.producer()`, `Value.graph`).  Both are reduced to a *definition site* `(path of the defining graph, name)` and
compared per node input.  Nothing of `onnx_ir.serde` takes part, so a deserializer that resolves names in a wrong scope,
or hands nested graphs detached copies of outer values, is seen even when `to_proto(from_proto(p)) == p`.
"""

from __future__ import annotations


def _attr_graphs_proto(node):
    """[(attribute name, index or None, GraphProto)] of a NodeProto, in attribute order."""
    out = []
    names = [a.name for a in node.attribute]
    for a in node.attribute:
        if a.ref_attr_name or names.count(a.name) > 1:  # a duplicated attribute name has no unique IR counterpart
            continue
        if a.HasField("g") and a.type == 5:  # GRAPH
            out.append((a.name, None, a.g))
        for k, sg in enumerate(a.graphs):
            out.append((a.name, k, sg))
    return out


def _attr_graphs_ir(ir, node):
    out = {}
    for name, a in node.attributes.items():
        if a.is_ref():
            continue
        if a.type == ir.AttributeType.GRAPH and a.value is not None:
            out[(name, None)] = a.value
        elif a.type == ir.AttributeType.GRAPHS:
            for k, sg in enumerate(a.value):
                out[(name, k)] = sg
    return out


def check(model_proto, model, dangling=False):
    """List of human-readable mismatches (empty = the wiring agrees).

    dangling=True adds one rule for names that no scope defines: once a node of graph G consumes such a name directly,
    the value standing for it is visible like a definition in G, so every later consumer of the name in G - and in graphs
    nested in that node or in later nodes of G - must hold the very same Value object (a use that comes first inside a
    nested graph makes no such promise: the library documents that it cannot know the right scope then)."""
    import onnx_ir as ir

    problems = []
    paths = {}  # id(IR graph) -> path

    def defined_names(gp_or_fp, is_function):
        names = set()
        if is_function:
            names.update(n for n in gp_or_fp.input if n)
        else:
            names.update(i.name for i in gp_or_fp.input if i.name)
            names.update(t.name for t in gp_or_fp.initializer if t.name)
        for n in gp_or_fp.node:
            names.update(o for o in n.output if o)
        return names

    def index_graphs(gp, g, path, is_function=False):
        paths[id(g)] = path
        ir_nodes = list(g)
        if len(ir_nodes) != len(gp.node):
            problems.append(f"{path}: {len(gp.node)} nodes in the proto, {len(ir_nodes)} in the IR")
            return
        for k, (np_, n) in enumerate(zip(gp.node, ir_nodes)):
            subs = _attr_graphs_ir(ir, n)
            for an, idx, sgp in _attr_graphs_proto(np_):
                sg = subs.get((an, idx))
                if sg is None:
                    problems.append(f"{path}/node{k}: graph attribute {an!r}[{idx}] missing in the IR")
                    continue
                index_graphs(sgp, sg, f"{path}/node{k}.{an}" + ("" if idx is None else f"[{idx}]"))

    def site_of(v):
        p = v.producer()
        g = p.graph if p is not None else v.graph
        if g is None:
            return (None, v.name)
        return (paths.get(id(g), "<graph outside the model>"), v.name)

    def compare(gp, g, path, scopes, is_function=False):
        scopes = scopes + [(path, defined_names(gp, is_function), {})]
        ir_nodes = list(g)
        if len(ir_nodes) != len(gp.node):
            return
        for k, (np_, n) in enumerate(zip(gp.node, ir_nodes)):
            if len(np_.input) != len(n.inputs):
                problems.append(f"{path}/node{k}: {len(np_.input)} inputs in the proto, {len(n.inputs)} in the IR")
            else:
                for j, (name, v) in enumerate(zip(np_.input, n.inputs)):
                    if not name:
                        if v is not None:
                            problems.append(f"{path}/node{k}.input[{j}]: omitted in the proto, {v.name!r} in the IR")
                        continue
                    if v is None:
                        problems.append(f"{path}/node{k}.input[{j}]: {name!r} in the proto, None in the IR")
                        continue
                    want = next((p for p, names, _ in reversed(scopes) if name in names), None)
                    if want is None:
                        # dangling in the proto itself: no definition site to compare with
                        if dangling:
                            seen = next((d[name] for _, _, d in reversed(scopes) if name in d), None)
                            if seen is None:
                                scopes[-1][2][name] = (v, f"{path}/node{k}")
                            elif seen[0] is not v:
                                problems.append(f"{path}/node{k}.input[{j}]: undefined name {name!r} was given a value at {seen[1]} (visible here), but this input holds another Value object")
                        continue
                    got = site_of(v)
                    if got != (want, name):
                        problems.append(f"{path}/node{k}.input[{j}]: name {name!r} is defined in {want} but the IR input is {got[1]!r} defined in {got[0]}")
            subs = _attr_graphs_ir(ir, n)
            for an, idx, sgp in _attr_graphs_proto(np_):
                sg = subs.get((an, idx))
                if sg is not None:
                    compare(sgp, sg, f"{path}/node{k}.{an}" + ("" if idx is None else f"[{idx}]"), scopes)

    index_graphs(model_proto.graph, model.graph, "main")
    fmap = {}
    for f in model.functions.values():
        fmap[(f.domain, f.name, f.overload)] = f
    fpairs = []
    ids = [(fp.domain if fp.domain != "ai.onnx" else "", fp.name, getattr(fp, "overload", "")) for fp in model_proto.functions]
    for fp in model_proto.functions:
        if ids.count((fp.domain if fp.domain != "ai.onnx" else "", fp.name, getattr(fp, "overload", ""))) > 1:
            continue  # a function id that occurs twice has no unique IR counterpart
        f = fmap.get((fp.domain if fp.domain != "ai.onnx" else "", fp.name, getattr(fp, "overload", "")))
        if f is None:
            continue
        path = f"function:{fp.domain}:{fp.name}:{getattr(fp, 'overload', '')}"
        index_graphs(fp, f.graph, path, True)
        fpairs.append((fp, f, path))
    if problems:
        return problems
    compare(model_proto.graph, model.graph, "main", [])
    for fp, f, path in fpairs:
        compare(fp, f.graph, path, [], True)
    return problems


def selftest():
    import onnx
    from onnx import helper as oh

    import onnx_ir as ir

    # reference structure built through the IR API only (no deserializer involved)
    x = ir.Value(name="x")
    a = ir.Node("", "A", [x], num_outputs=1, name="a")
    a.outputs[0].name = "t"
    inner = ir.Node("", "B", [a.outputs[0]], num_outputs=1, name="b")
    inner.outputs[0].name = "u"
    sub = ir.Graph([], [inner.outputs[0]], nodes=[inner], name="sub")
    h = ir.Node("", "H", [], [ir.Attr("many", ir.AttributeType.GRAPHS, [sub])], num_outputs=1, name="h")
    h.outputs[0].name = "o"
    g = ir.Graph([x], [h.outputs[0]], nodes=[a, h], name="g", opset_imports={"": 20})
    m = ir.Model(g, ir_version=10)
    sp = oh.make_graph([oh.make_node("B", ["t"], ["u"], name="b")], "sub", [], [oh.make_tensor_value_info("u", 1, None)])
    hn = oh.make_node("H", [], ["o"], name="h")
    at = hn.attribute.add()
    at.name, at.type = "many", onnx.AttributeProto.GRAPHS
    at.graphs.add().CopyFrom(sp)
    gp = oh.make_graph([oh.make_node("A", ["x"], ["t"], name="a"), hn], "g", [oh.make_tensor_value_info("x", 1, None)], [oh.make_tensor_value_info("o", 1, None)])
    mp = oh.make_model(gp)
    assert check(mp, m) == [], check(mp, m)
    # corrupt the IR: the nested node reads a detached twin of the captured value
    inner.replace_input_with(0, ir.Value(name="t"))
    assert check(mp, m), "a detached capture must be reported"

"""Structural (definition-site based) description of an IR model, for isomorphism checks (C03, C13).

iso(model) is a nested tuple that does not depend on object identity: every value reference is
rendered as its definition site (graph path, role, index).  Only things an ONNX proto can carry are
included (see DESIGN.md C03 for the list of IR-only fields that are left out).
"""

from __future__ import annotations

import onnx_ir as ir

QUANT_KEY = "quant_parameter_tensor_names"


def _none_if_empty(s):
    return s if s else None


def _md(d):
    return tuple(sorted((d or {}).items()))


def tensor_desc(t):
    if t is None:
        return None
    try:
        if isinstance(t, ir.ExternalTensor):
            return ("external", str(t.location), t.offset, t.length, int(t.dtype), tuple(t.shape.numpy()), _none_if_empty(t.doc_string), _md(t.metadata_props))
        if int(t.dtype) == 8:
            data = tuple(bytes(x) if not isinstance(x, str) else x.encode() for x in t.numpy().reshape(-1).tolist())
            return ("string", tuple(t.shape.numpy()), data, _none_if_empty(t.doc_string), _md(t.metadata_props))
        # the logical content, element by element in row-major order, taken from numpy() - NOT from tobytes(), which is
        # the very routine the serializer uses (comparing it with itself would hide a wrong encoding)
        import numpy as np

        content = np.ascontiguousarray(t.numpy()).tobytes()
        return ("tensor", int(t.dtype), tuple(t.shape.numpy()), content, _none_if_empty(t.doc_string), _md(t.metadata_props))
    except Exception as e:
        return ("tensor-error", type(e).__name__)


def type_desc(t):
    if t is None:
        return None
    if isinstance(t, (ir.TensorType, ir.SparseTensorType)):
        return (type(t).__name__, int(t.dtype), _none_if_empty(t.denotation))
    return (type(t).__name__, type_desc(t.elem_type), _none_if_empty(t.denotation))


def shape_desc(s):
    if s is None:
        return None
    out = []
    for i, d in enumerate(s.dims):
        if isinstance(d, int):
            out.append((d, _none_if_empty(s.get_denotation(i))))
        else:
            out.append(("sym", d.value, _none_if_empty(s.get_denotation(i))))
    return tuple(out)


class Iso:
    def __init__(self, with_device=True, model_cfgs=(), describe_undefined=()):
        self.sites = {}
        self.with_device = with_device
        self.model_cfgs = tuple(model_cfgs)
        # An initializer entry without a tensor cannot be written as an initializer (documented: it is skipped with a
        # warning, its value_info is kept).  On the wire it is an undefined name with a description; both sides of a round
        # trip are rendered like that: `pending` collects (name, description) of such entries, `describe_undefined` names
        # the undefined values whose description has to be collected on the other side.
        self.pending = {}
        self.describe_undefined = set(describe_undefined)

    def register_graph(self, g, path):
        for i, v in enumerate(g.inputs):
            self.sites.setdefault(id(v), ("in", path, i))
        for k, v in g.initializers.items():
            if v.const_value is None and not any(v is x for x in g.inputs):
                if any(u.graph is not None for u, _ in v.uses()):  # (a description naming nothing is dropped on the wire)
                    self.pending[k] = self.value_desc(v)
                continue
            self.sites.setdefault(id(v), ("init", path, k))
        for ni, n in enumerate(g):
            for oi, o in enumerate(n.outputs):
                self.sites.setdefault(id(o), ("out", path, ni, oi))

    def ref(self, v):
        if v is None:
            return None
        s = self.sites.get(id(v))
        if s is None:
            if v.name in self.describe_undefined and v.producer() is None:
                self.pending[v.name] = self.value_desc(v)
            return ("undefined", v.name)
        return s

    def value_desc(self, v, is_initializer=False):
        ty, sh = v.type, v.shape
        if is_initializer and v.const_value is not None:
            # the proto always carries dtype/dims of an initializer: an untyped initializer value and a typed one
            # are the same thing on the wire
            if ty is None:
                ty = ir.TensorType(v.const_value.dtype)
            if sh is None:
                sh = v.const_value.shape
        q = v.meta.get(QUANT_KEY) if hasattr(v, "meta") else None
        return ("V", v.name, type_desc(ty), shape_desc(sh) if ty is not None else None, _none_if_empty(v.doc_string), _md(v.metadata_props),
                _md(q) if q else None)

    def attr_desc(self, a, path):
        if a.is_ref():
            return ("A", a.name, "ref", int(a.type), a.ref_attr_name, _none_if_empty(a.doc_string))
        T = ir.AttributeType
        v = a.value
        if a.type == T.GRAPH:
            val = self.graph_desc(v, path + (a.name,))
        elif a.type == T.GRAPHS:
            val = tuple(self.graph_desc(g, path + (a.name, i)) for i, g in enumerate(v))
        elif a.type == T.TENSOR:
            val = (getattr(v, "name", None), tensor_desc(v))
        elif a.type == T.TENSORS:
            val = tuple((getattr(t, "name", None), tensor_desc(t)) for t in v)
        elif a.type == T.TYPE_PROTO:
            val = (type_desc(v.type), shape_desc(v.shape) if v.type is not None else None)
        elif a.type == T.TYPE_PROTOS:
            val = tuple((type_desc(x.type), shape_desc(x.shape) if x.type is not None else None) for x in v)
        elif a.type == T.FLOAT:
            import struct

            val = struct.pack("<f", v)
        elif a.type == T.FLOATS:
            import struct

            val = tuple(struct.pack("<f", x) for x in v)
        elif a.type in (T.INTS, T.STRINGS):
            val = tuple(v)
        else:
            val = v
        return ("A", a.name, int(a.type), val, _none_if_empty(a.doc_string))

    def node_desc(self, n, path, ni):
        outs = list(n.outputs)
        while outs and not outs[-1].name and not outs[-1].uses() and not outs[-1].is_graph_output():
            outs.pop()  # trailing unnamed, unused outputs do not exist on the wire
        dev = ()
        if self.with_device and n.device_configurations:
            dev = tuple(self.devcfg_desc(dc) for dc in n.device_configurations)
        return (
            "N", _none_if_empty(n.name), n.domain, n.op_type, n.overload, _none_if_empty(n.doc_string), _md(n.metadata_props),
            tuple(self.attr_desc(a, path + (ni,)) for a in n.attributes.values()),
            tuple(self.ref(v) for v in n.inputs),
            tuple(self.value_desc(o) for o in outs),
            dev,
        )

    def devcfg_desc(self, dc):
        specs = []
        for s in dc.sharding_specs:
            specs.append((self.ref(s.value) if s.value is not None else None, getattr(s.value, "name", None), tuple(s.device),
                          tuple((e.key, tuple(e.value)) for e in s.index_to_device_group_map),
                          tuple((sd.axis, tuple((repr(x.dim), x.num_shards) for x in sd.simple_shardings)) for sd in s.sharded_dims)))
        cfg = dc.configuration
        registered = any(cfg is c for c in self.model_cfgs)
        return ((getattr(cfg, "name", None), getattr(cfg, "num_devices", None), tuple(getattr(cfg, "device_names", ()) or ()), registered),
                dc.pipeline_stage, tuple(specs))

    def graph_desc(self, g, path):
        self.register_graph(g, path)
        init_names = set(g.initializers.keys())
        return (
            "G", _none_if_empty(g.name), _none_if_empty(g.doc_string), _md(g.metadata_props),
            tuple(self.value_desc(v, is_initializer=v.name in init_names and g.initializers.get(v.name) is v) for v in g.inputs),
            tuple((k, self.value_desc(v, True), tensor_desc(v.const_value)) for k, v in g.initializers.items()
                  if not (v.const_value is None and not any(v is x for x in g.inputs))),
            tuple(self.node_desc(n, path, ni) for ni, n in enumerate(g)),
            tuple((self.ref(v), self.value_desc(v, v.is_initializer())) for v in g.outputs),
        )


def model_iso(model, describe_undefined=()):
    mc = tuple(getattr(model, "device_configurations", ()) or ())
    I = Iso(with_device=model.ir_version >= 11, model_cfgs=mc, describe_undefined=describe_undefined)
    fns = []
    for fid, f in model.functions.items():
        I2 = Iso(with_device=model.ir_version >= 11, model_cfgs=mc)
        I2.register_graph(f.graph, ("fn",))
        fns.append((
            "F", fid, f.name, f.domain, f.overload, _none_if_empty(f.doc_string), _md(f.metadata_props), _md(f.opset_imports),
            tuple(I2.attr_desc(a, ("fnattr",)) if a.value is not None or a.is_ref() else (a.name, "nodefault") for a in f.attributes.values()),
            # (below IR version 10 a FunctionProto has no value_info field; the library keeps the information in the main
            # graph's value_info under "{domain}::{function}/{value}", so it survives a round trip all the same)
            tuple(I2.value_desc(v) for v in f.inputs),
            tuple(I2.node_desc(n, ("fn",), ni) for ni, n in enumerate(f)),
            tuple(I2.ref(v) for v in f.outputs),
        ))
    cfgs = ()
    if model.ir_version >= 11:
        cfgs = tuple((c.name, c.num_devices, tuple(c.device_names)) for c in getattr(model, "device_configurations", ()))
    return (
        "M", model.ir_version, _none_if_empty(model.producer_name), _none_if_empty(model.producer_version), _none_if_empty(model.domain),
        model.model_version or None, _none_if_empty(model.doc_string), _md(model.metadata_props), _md(model.opset_imports),
        I.graph_desc(model.graph, ("g",)), tuple(fns), cfgs, tuple(sorted(I.pending.items(), key=lambda kv: str(kv[0]))),
    )


def pending_names(desc):
    """Names of the data-less initializer entries recorded in a model description."""
    return [k for k, _ in desc[-1]]


def _strip_value_info(nd):
    """Below IR version 10 a FunctionProto cannot carry value_info: only names of node outputs survive."""
    outs = tuple(("V", o[1]) for o in nd[9])
    return nd[:9] + (outs,) + nd[10:]


FIELDS = {
    "M": ["tag", "ir_version", "producer_name", "producer_version", "domain", "model_version", "doc_string", "metadata_props",
          "opset_imports", "graph", "functions", "device_configurations", "initializers_without_data"],
    "G": ["tag", "name", "doc_string", "metadata_props", "inputs", "initializers", "nodes", "outputs"],
    "N": ["tag", "name", "domain", "op_type", "overload", "doc_string", "metadata_props", "attributes", "inputs", "outputs", "device_configurations"],
    "V": ["tag", "name", "type", "shape", "doc_string", "metadata_props", "quantization"],
    "A": ["tag", "name", "type", "value", "doc_string", "x"],
    "F": ["tag", "id", "name", "domain", "overload", "doc_string", "metadata_props", "opset_imports", "attributes", "inputs", "nodes", "outputs"],
}


def first_difference(a, b, path="model", label="?"):
    """(bucket label, text) of the first structural difference, or None."""
    if type(a) != type(b):
        return label, f"{path}: {str(a)[:120]!r} != {str(b)[:120]!r}"
    if isinstance(a, tuple):
        tag = a[0] if a and isinstance(a[0], str) and a[0] in FIELDS and len(a) > 1 else None
        if len(a) != len(b):
            return label + "#count", f"{path}: length {len(a)} != {len(b)} ({str(a)[:150]} vs {str(b)[:150]})"
        for i, (x, y) in enumerate(zip(a, b)):
            if tag:
                names = FIELDS[tag]
                fld = names[i] if i < len(names) else str(i)
                d = first_difference(x, y, f"{path}.{fld}", f"{tag}.{fld}")
            else:
                d = first_difference(x, y, f"{path}[{i}]", label)
            if d:
                return d
        return None
    if a != b:
        return label, f"{path}: {str(a)[:150]!r} != {str(b)[:150]!r}"
    return None

"""Shared executor for edit histories: C01 invariants after every op, C06 atomicity of raising ops."""

from __future__ import annotations

from vlib import invariants, snapshot
from vlib import universe as U

FIELD_NAMES = {
    "V": ["kind", "name", "type", "shape", "const", "doc", "meta", "is_input", "is_output", "is_init",
          "graph", "producer", "index", "uses"],
    "N": ["kind", "name", "domain", "op_type", "overload", "version", "doc", "meta", "attrs", "inputs",
          "outputs", "graph", "devcfg"],
    "G": ["kind", "name", "doc", "opsets", "meta", "inputs", "outputs", "initializers", "nodes"],
    "F": ["kind", "name", "domain", "overload", "doc", "opsets", "meta", "attrs", "graph"],
    "T": ["kind", "name"],
    "count": ["objects"],
}


def field_label(kind, j):
    names = FIELD_NAMES.get(kind, [])
    return f"{kind}.{names[j] if j < len(names) else j}"


MUTATING_PREFIXES = ("g_", "n_", "io_", "init_", "v_", "conv_", "new_node", "new_graph")


def owners_of(u, v):
    out = []
    for g in u.graphs:
        if any(x is v for x in g.inputs) or any(x is v for x in g.outputs) or any(
            x is v for x in g.initializers.values()
        ):
            out.append(g)
    return out


def run_history(case, want_inv=True, want_atomic=True, stop_on_first=True):
    """Execute case = {"setup": int, "ops": [...]}.

    Returns dict(inv_fail=(bucket,msg,k)|None, atomic_fail=[(bucket,msg,k)], stats...)
    """
    setup = case.get("setup", 1)
    ops = case.get("ops", [])
    u = U.Universe(setup, case.get('safe', False))
    res = dict(inv_fail=None, atomic_fails=[], raised=0, executed=0, multi_role=False, dup_entry=False,
               moved=False, rejected_multi=False, mutating=0, raised_ops=[], u=u)
    if want_inv:
        e0 = invariants.check_all(u)
        if e0:
            res["inv_fail"] = (f"{e0[0][0]}/construction", "universe built by constructors only: " + "; ".join(m for _, m in e0[:3]), -1)
            return res
    node_graph_hist = {}
    for k, op in enumerate(ops):
        if not isinstance(op, list) or not op or not isinstance(op[0], str) or op[0] not in U.ALPHABET:
            raise U.Malformed("bad op")
        before = snapshot.take(u) if want_atomic else None
        exc = U.run_op(u, op)
        u.sweep()
        res["executed"] += 1
        if op[0].startswith(MUTATING_PREFIXES):
            res["mutating"] += 1
        if exc is not None:
            res["raised"] += 1
            res["raised_ops"].append(k)
            if any(isinstance(a, list) and len(a) >= 2 for a in op[1:]):
                res["rejected_multi"] = True
            if want_atomic:
                after = snapshot.take(u)
                if after != before:
                    fields = sorted(field_label(kd, j) for kd, j in snapshot.diff_fields(before, after))
                    bucket = f"atomic/{op[0]}/{type(exc).__name__}"
                    msg = (
                        f"op#{k} {op} raised {type(exc).__name__}({str(exc)[:120]!r}) but state changed: "
                        f"fields={fields} :: {snapshot.diff(before, after)}"
                    )
                    res["atomic_fails"].append((bucket, msg, k))
                    if stop_on_first:
                        break
        if want_inv:
            try:
                errs = invariants.check_all(u)
            except Exception as e:  # accessor itself blew up: also an inconsistency
                errs = [("I-accessor-crash-" + type(e).__name__, repr(e)[:200])]
            if errs:
                clause, msg = errs[0]
                bucket = f"{clause}/{op[0]}" + ("/raised" if exc is not None else "")
                res["inv_fail"] = (bucket, f"after op#{k} {op}: " + "; ".join(m for _, m in errs[:3]), k)
                break
        # statistics for the non-trivial rule
        for n in u.nodes:
            g = n.graph
            hist = node_graph_hist.setdefault(id(n), [])
            gi = id(g) if g is not None else None
            if not hist or hist[-1] != gi:
                hist.append(gi)
                if len([h for h in hist if h is not None]) >= 2:
                    res["moved"] = True
        if not (res["multi_role"] and res["dup_entry"]):
            for g in u.graphs:
                for coll in (g.inputs, g.outputs):
                    ids = [id(v) for v in coll]
                    if len(set(ids)) != len(ids):
                        res["dup_entry"] = True
            for v in u.values:
                if v.is_graph_input() + v.is_graph_output() + v.is_initializer() >= 2:
                    res["multi_role"] = True
                    break
    return res

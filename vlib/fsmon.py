"""File-access monitor: records every file-system access made while `recording()` is active.

Two independent layers: (1) harness-side replacement of os.stat/lstat/open/readlink/access/listdir/
scandir/path helpers, builtins.open, io.open and mmap.mmap; (2) the interpreter's 'open' audit event.
Accesses to Python source / byte-code / shared objects (lazy imports, tracebacks) are not counted.
"""

from __future__ import annotations

import builtins
import contextlib
import io
import mmap
import os
import sys

_events = []
_active = [False]
_hook_installed = [False]
IGNORE_SUFFIX = (".py", ".pyc", ".so", ".pyi", ".pth")


def _note(kind, path):
    if not _active[0]:
        return
    try:
        p = os.fspath(path) if not isinstance(path, int) else f"<fd {path}>"
    except TypeError:
        p = repr(path)
    if isinstance(p, bytes):
        p = p.decode("utf-8", "replace")
    if isinstance(p, str) and (p.endswith(IGNORE_SUFFIX) or "__pycache__" in p or "site-packages" in p or "/lib/python" in p):
        return
    _events.append((kind, p))


def _audit(event, args):
    if event == "open" and _active[0]:
        _note("audit:open", args[0] if args else "?")


def install():
    if not _hook_installed[0]:
        sys.addaudithook(_audit)
        _hook_installed[0] = True


_PATCH = [(os, n) for n in ("stat", "lstat", "open", "readlink", "access", "listdir", "scandir")] + [
    (builtins, "open"), (io, "open"), (mmap, "mmap"), (os.path, "exists"), (os.path, "isfile"), (os.path, "getsize"),
    (os.path, "realpath")]


@contextlib.contextmanager
def recording():
    """with recording() as events: ...  -> list of (kind, path) observed inside the block."""
    install()
    saved = []
    for mod, name in _PATCH:
        orig = getattr(mod, name)
        saved.append((mod, name, orig))

        def make(orig=orig, label=f"{mod.__name__}.{name}"):
            if isinstance(orig, type):  # mmap.mmap is a class
                class Wrapped(orig):  # type: ignore[misc,valid-type]
                    def __new__(cls, *a, **k):
                        _note(label, a[0] if a else "?")
                        return orig.__new__(cls, *a, **k)

                return Wrapped

            def wrapped(*a, **k):
                _note(label, a[0] if a else k.get("path", k.get("file", "?")))
                return orig(*a, **k)

            return wrapped

        setattr(mod, name, make())
    del _events[:]
    _active[0] = True
    try:
        yield _events
    finally:
        _active[0] = False
        for mod, name, orig in saved:
            setattr(mod, name, orig)


def selftest():
    import tempfile

    with tempfile.NamedTemporaryFile() as tf:
        with recording() as ev:
            os.stat(tf.name)
            open(tf.name, "rb").close()
        kinds = {k for k, _ in ev}
        assert "os.stat" in kinds and "builtins.open" in kinds and "audit:open" in kinds, kinds
    with recording() as ev:
        x = 1 + 1
    assert ev == [], ev

"""Model evaluation for differential checks: onnxruntime (all graph optimisations disabled), inputs fed by position."""

from __future__ import annotations

import numpy as np

_ORT = None


def _ort():
    global _ORT
    if _ORT is None:
        import onnxruntime as ort

        ort.set_default_logger_severity(4)
        _ORT = ort
    return _ORT


def input_sets(proto, n=3):
    """Deterministic input sets for the non-initializer inputs, in graph order: small ints, and rows with NaN/inf."""
    init = {t.name for t in proto.graph.initializer}
    ins = [i for i in proto.graph.input if i.name not in init]
    sets = []
    for k in range(n):
        feed = []
        for j, vi in enumerate(ins):
            tt = vi.type.tensor_type
            shape = [d.dim_value for d in tt.shape.dim]
            if tt.elem_type == 9:
                feed.append(np.array((k + j) % 2 == 0).reshape(shape) if not shape else np.full(shape, (k + j) % 2 == 0))
            elif tt.elem_type == 7:
                feed.append(np.arange(int(np.prod(shape or [1])), dtype=np.int64).reshape(shape) + k)
            else:
                base = (np.arange(int(np.prod(shape or [1])), dtype=np.float32).reshape(shape) - 2.0 + j) * (k + 1) * 0.5
                if k == 2 and base.size >= 3:
                    base = base.copy()
                    base.flat[0] = np.nan
                    base.flat[1] = np.inf
                    base.flat[2] = -np.inf
                feed.append(base.astype(np.float32))
        sets.append(feed)
    return sets


def run(proto, feeds):
    """Returns list (per feed) of list of output arrays. Raises if the model cannot be loaded or run."""
    ort = _ort()
    so = ort.SessionOptions()
    so.graph_optimization_level = ort.GraphOptimizationLevel.ORT_DISABLE_ALL
    so.log_severity_level = 4
    so.intra_op_num_threads = 1
    so.inter_op_num_threads = 1
    sess = ort.InferenceSession(proto.SerializeToString(), so, providers=["CPUExecutionProvider"])
    init = {t.name for t in proto.graph.initializer}
    names = [i.name for i in proto.graph.input if i.name not in init]
    results = []
    for feed in feeds:
        results.append(sess.run(None, dict(zip(names, feed))))
    return results


def same_outputs(a, b):
    """Bit-exact, NaN-aware comparison of two result lists. Returns None or a description."""
    if len(a) != len(b):
        return f"{len(a)} vs {len(b)} input sets"
    for k, (ra, rb) in enumerate(zip(a, b)):
        if len(ra) != len(rb):
            return f"number of outputs {len(ra)} -> {len(rb)}"
        for j, (x, y) in enumerate(zip(ra, rb)):
            x, y = np.asarray(x), np.asarray(y)
            if x.dtype != y.dtype or x.shape != y.shape:
                return f"output {j}: {x.dtype}{list(x.shape)} -> {y.dtype}{list(y.shape)}"
            if x.dtype.kind in "OUS":
                if x.tolist() != y.tolist():
                    return f"output {j} (strings) differs on input set {k}"
            elif not np.array_equal(x, y, equal_nan=True):
                return f"output {j} differs on input set {k}: {x.reshape(-1)[:4]} -> {y.reshape(-1)[:4]}"
    return None

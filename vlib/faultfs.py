"""File-system effect counter / fault injector for the external-data writer (C08).

`Injector` replaces, in the namespace of `onnx_ir.external_data` (and `onnx_ir._io`) only, the names
`os`, `shutil`, `tempfile`, `open` and `onnx` by thin proxies that announce every file-system effect
as an *effect point* before performing it.  At a chosen point the injector either raises an OSError
(mode "exc") or kills the process with os._exit (mode "die", used inside a forked child).
Nothing in onnx_ir is modified on disk; the replacement is undone on exit.
"""

from __future__ import annotations

import builtins
import errno
import os
import shutil
import tempfile


class Injected(OSError):
    pass


class InjectedInterrupt(KeyboardInterrupt):
    """A BaseException that is not an Exception (Ctrl-C, SystemExit, CancelledError...): mode "kbd"."""


class Injector:
    def __init__(self, target=None, mode="count", errno_=errno.ENOSPC):
        self.target = target  # index of the effect point to hit, or None
        self.mode = mode  # "count" | "exc" | "kbd" | "die"
        self.errno = errno_
        self.labels = []
        self.fired = None
        self._saved = []

    # -- the hook ----------------------------------------------------------------------------
    def point(self, label):
        idx = len(self.labels)
        self.labels.append(label)
        if self.target is not None and idx == self.target and self.fired is None:
            self.fired = label
            if self.mode == "die":
                os._exit(9)
            if self.mode == "kbd":
                raise InjectedInterrupt(f"injected interrupt at effect point #{idx} ({label})")
            raise Injected(self.errno, f"injected fault at effect point #{idx} ({label})")

    # -- proxies -----------------------------------------------------------------------------
    def _os_proxy(self):
        inj = self

        class OsProxy:
            path = os.path
            sep = os.sep
            curdir = os.curdir

            def __getattr__(self, name):
                return getattr(os, name)

            @staticmethod
            def replace(a, b, *args, **kw):
                inj.point("os.replace")
                return os.replace(a, b, *args, **kw)

            @staticmethod
            def remove(p, *args, **kw):
                inj.point("os.remove")
                return os.remove(p, *args, **kw)

            @staticmethod
            def rmdir(p, *args, **kw):
                inj.point("os.rmdir")
                return os.rmdir(p, *args, **kw)

        return OsProxy()

    def _shutil_proxy(self):
        inj = self

        class ShutilProxy:
            def __getattr__(self, name):
                return getattr(shutil, name)

            @staticmethod
            def copymode(a, b, *args, **kw):
                inj.point("shutil.copymode")
                return shutil.copymode(a, b, *args, **kw)

        return ShutilProxy()

    def _tempfile_proxy(self):
        inj = self

        class TempfileProxy:
            def __getattr__(self, name):
                return getattr(tempfile, name)

            @staticmethod
            def mkdtemp(*args, **kw):
                inj.point("tempfile.mkdtemp")
                return tempfile.mkdtemp(*args, **kw)

        return TempfileProxy()

    def _open(self, file, mode="r", *args, **kw):
        if any(c in mode for c in "wa+x"):
            self.point(f"open({mode})")
        return builtins.open(file, mode, *args, **kw)

    def __enter__(self):
        from onnx_ir import _io, external_data

        import onnx

        inj = self

        class OnnxProxy:
            def __getattr__(self, name):
                return getattr(onnx, name)

            @staticmethod
            def save(proto, path, *a, **k):
                inj.point("onnx.save(model)")
                return onnx.save(proto, path, *a, **k)

        repl = [(external_data, "os", self._os_proxy()), (external_data, "shutil", self._shutil_proxy()),
                (external_data, "tempfile", self._tempfile_proxy()), (external_data, "open", self._open), (_io, "onnx", OnnxProxy())]
        for mod, name, new in repl:
            self._saved.append((mod, name, mod.__dict__.get(name, _MISSING)))
            setattr(mod, name, new)
        return self

    def __exit__(self, *exc):
        for mod, name, old in reversed(self._saved):
            if old is _MISSING:
                delattr(mod, name)
            else:
                setattr(mod, name, old)
        self._saved = []
        return False


_MISSING = object()


def selftest():
    """A deliberately faulty toy run must be seen by the counter and hit by the injector."""
    from onnx_ir import external_data

    d = tempfile.mkdtemp(prefix="verif_faultfs_")
    try:
        with Injector() as inj:
            with external_data.open(os.path.join(d, "f"), "wb") as f:
                f.write(b"x")
            external_data.os.replace(os.path.join(d, "f"), os.path.join(d, "g"))
        assert inj.labels == ["open(wb)", "os.replace"], inj.labels
        assert "open" not in external_data.__dict__ and external_data.os is os
        try:
            with Injector(target=1, mode="exc") as inj:
                with external_data.open(os.path.join(d, "f"), "wb") as f:
                    f.write(b"x")
                external_data.os.replace(os.path.join(d, "f"), os.path.join(d, "h"))
            raise AssertionError("injection did not fire")
        except Injected:
            pass
        assert not os.path.exists(os.path.join(d, "h"))
    finally:
        shutil.rmtree(d, ignore_errors=True)

"""File-system effect counter / fault injector for the external-data writer (C08).

`Injector` replaces, in the namespace of `onnx_ir.external_data` (and `onnx_ir._io`) only, the names
`os`, `shutil`, `tempfile`, `open` and `onnx` by thin proxies that announce every file-system effect
as an *effect point* before performing it.  At a chosen point the injector either raises an OSError
(mode "exc") or kills the process with os._exit (mode "die", used inside a forked child).
Nothing in onnx_ir is modified on disk; the replacement is undone on exit.
"""

from __future__ import annotations

import builtins
import errno
import os
import shutil
import tempfile


class Injected(OSError):
    pass


_INJECTED_CLASSES = {}


def injected_error(errno_, message):
    """An OSError of the class Python itself would pick for this errno (PermissionError, FileExistsError, ...),
    which is also an `Injected` - handlers written for the specific class must see the fault."""
    base = type(OSError(errno_, ""))
    if base is OSError:
        return Injected(errno_, message)
    cls = _INJECTED_CLASSES.get(base)
    if cls is None:
        cls = _INJECTED_CLASSES[base] = type("Injected" + base.__name__, (Injected, base), {})
    return cls(errno_, message)


class InjectedInterrupt(KeyboardInterrupt):
    """A BaseException that is not an Exception (Ctrl-C, SystemExit, CancelledError...): mode "kbd"."""


class Injector:
    def __init__(self, target=None, mode="count", errno_=errno.ENOSPC, second=None):
        self.target = target  # index of the effect point to hit, or None
        self.mode = mode  # "count" | "exc" | "kbd" | "die"
        self.errno = errno_
        # second = (j, mode2): after the first fault fired, the j-th effect point that follows (the recovery path) is
        # hit as well; second = "count" only records the labels of those points in tail_labels
        self.second = second
        self.tail_labels = []
        self.second_fired = None
        self.labels = []
        self.fired = None
        self._saved = []

    # -- the hook ----------------------------------------------------------------------------
    def point(self, label):
        idx = len(self.labels)
        self.labels.append(label)
        if self.fired is not None and self.second is not None:
            j = len(self.tail_labels)
            self.tail_labels.append(label)
            if self.second != "count" and self.second_fired is None and j == self.second[0]:
                self.second_fired = label
                if self.second[1] == "die":
                    os._exit(9)
                if self.second[1] == "kbd":
                    raise InjectedInterrupt(f"second injected interrupt at {label}")
                raise Injected(errno.EIO, f"second injected fault at {label}")
            return
        if self.target is not None and idx == self.target and self.fired is None:
            self.fired = label
            if self.mode == "die":
                os._exit(9)
            if self.mode == "kbd":
                raise InjectedInterrupt(f"injected interrupt at effect point #{idx} ({label})")
            raise injected_error(self.errno, f"injected fault at effect point #{idx} ({label})")

    # -- proxies -----------------------------------------------------------------------------
    def _os_proxy(self):
        inj = self

        class OsProxy:
            path = os.path
            sep = os.sep
            curdir = os.curdir

            def __getattr__(self, name):
                return getattr(os, name)

            @staticmethod
            def replace(a, b, *args, **kw):
                inj.point("os.replace")
                return os.replace(a, b, *args, **kw)

            @staticmethod
            def remove(p, *args, **kw):
                inj.point("os.remove")
                return os.remove(p, *args, **kw)

            @staticmethod
            def rmdir(p, *args, **kw):
                inj.point("os.rmdir")
                return os.rmdir(p, *args, **kw)

            @staticmethod
            def rename(a, b, *args, **kw):
                inj.point("os.rename")
                return os.rename(a, b, *args, **kw)

            @staticmethod
            def unlink(p, *args, **kw):
                inj.point("os.unlink")
                return os.unlink(p, *args, **kw)

            @staticmethod
            def link(a, b, *args, **kw):
                inj.point("os.link")
                return os.link(a, b, *args, **kw)

            @staticmethod
            def truncate(p, n):
                inj.point("os.truncate")
                return os.truncate(p, n)

        return OsProxy()

    def _shutil_proxy(self):
        inj = self

        class ShutilProxy:
            def __getattr__(self, name):
                return getattr(shutil, name)

            @staticmethod
            def copymode(a, b, *args, **kw):
                inj.point("shutil.copymode")
                return shutil.copymode(a, b, *args, **kw)

            # a copy ONTO a path is not atomic: it truncates the target and then fills it.  The proxies perform the copy
            # in those steps with an effect point after each, so that a crash / fault in the middle is enumerated too.
            @staticmethod
            def _stepwise(src, dst, label):
                inj.point(label)
                if os.path.isdir(dst):
                    dst = os.path.join(dst, os.path.basename(src))
                with builtins.open(src, "rb") as f:
                    data = f.read()
                with builtins.open(dst, "wb") as f:
                    f.flush()
                    inj.point(label + ".truncated")
                    f.write(data[: len(data) // 2])
                    f.flush()
                    inj.point(label + ".mid")
                    f.write(data[len(data) // 2:])
                return dst

            @staticmethod
            def copyfile(src, dst, *args, **kw):
                return ShutilProxy._stepwise(src, dst, "shutil.copyfile")

            @staticmethod
            def copy(src, dst, *args, **kw):
                d = ShutilProxy._stepwise(src, dst, "shutil.copy")
                shutil.copymode(src, d)
                return d

            @staticmethod
            def copy2(src, dst, *args, **kw):
                d = ShutilProxy._stepwise(src, dst, "shutil.copy2")
                shutil.copystat(src, d)
                return d

            @staticmethod
            def move(src, dst, *args, **kw):
                inj.point("shutil.move")
                try:
                    os.rename(src, dst)
                    return dst
                except OSError:
                    d = ShutilProxy._stepwise(src, dst, "shutil.move.copy")
                    os.unlink(src)
                    return d

        return ShutilProxy()

    def _tempfile_proxy(self):
        inj = self

        class TempfileProxy:
            def __getattr__(self, name):
                return getattr(tempfile, name)

            @staticmethod
            def mkdtemp(*args, **kw):
                inj.point("tempfile.mkdtemp")
                return tempfile.mkdtemp(*args, **kw)

        return TempfileProxy()

    def _open(self, file, mode="r", *args, **kw):
        if any(c in mode for c in "wa+x"):
            self.point(f"open({mode})")
        return builtins.open(file, mode, *args, **kw)

    def __enter__(self):
        from onnx_ir import _io, external_data

        import onnx

        inj = self

        class OnnxProxy:
            def __getattr__(self, name):
                return getattr(onnx, name)

            @staticmethod
            def save(proto, path, *a, **k):
                inj.point("onnx.save(model)")
                return onnx.save(proto, path, *a, **k)

        repl = [(external_data, "os", self._os_proxy()), (external_data, "shutil", self._shutil_proxy()),
                (external_data, "tempfile", self._tempfile_proxy()), (external_data, "open", self._open), (_io, "onnx", OnnxProxy())]
        for mod, name, new in repl:
            self._saved.append((mod, name, mod.__dict__.get(name, _MISSING)))
            setattr(mod, name, new)
        return self

    def __exit__(self, *exc):
        for mod, name, old in reversed(self._saved):
            if old is _MISSING:
                delattr(mod, name)
            else:
                setattr(mod, name, old)
        self._saved = []
        return False


_MISSING = object()


def selftest():
    """A deliberately faulty toy run must be seen by the counter and hit by the injector."""
    from onnx_ir import external_data

    d = tempfile.mkdtemp(prefix="verif_faultfs_")
    try:
        with Injector() as inj:
            with external_data.open(os.path.join(d, "f"), "wb") as f:
                f.write(b"x")
            external_data.os.replace(os.path.join(d, "f"), os.path.join(d, "g"))
        assert inj.labels == ["open(wb)", "os.replace"], inj.labels
        assert "open" not in external_data.__dict__ and external_data.os is os
        try:
            with Injector(target=1, mode="exc") as inj:
                with external_data.open(os.path.join(d, "f"), "wb") as f:
                    f.write(b"x")
                external_data.os.replace(os.path.join(d, "f"), os.path.join(d, "h"))
            raise AssertionError("injection did not fire")
        except Injected:
            pass
        assert not os.path.exists(os.path.join(d, "h"))
    finally:
        shutil.rmtree(d, ignore_errors=True)

"""Tape-driven generator of well-formed ONNX protos over the feature set onnx_ir supports.

A *tape* is a list of non-negative ints (drawn by Hypothesis, or decoded from fuzzer bytes).  Every
choice of the builder consumes one element (`pick(n)` = next % n, 0 when the tape is exhausted), and
choice 0 is always the simplest alternative, so any tape decodes to a valid proto (construction, never
rejection) and shortening / zeroing the tape simplifies the proto.  Protos are built with the onnx
protobuf API only - never through onnx_ir.
"""

from __future__ import annotations

import onnx

from vlib import refenc

ELEM_TYPES = [1, 7, 9, 10, 16, 6, 3, 2, 11, 8, 17, 21, 22, 23, 25, 26, 12, 13, 14, 15, 4, 5, 18, 19, 20, 24]
OPS = ["Add", "Relu", "Identity", "If", "Loop", "Custom", "Constant", "Split"]
DOMAINS = ["", "ai.onnx", "custom.domain", "com.microsoft"]
TEXTS = ["", "doc", "a doc string\nwith newline", "ünïcode ✓", " "]
KEYS = ["k", "source", "namespace", "pkg.torch.onnx.class_hierarchy", "ü"]


class Tape:
    def __init__(self, ints):
        self.ints = list(ints)
        self.pos = 0
        self.features = set()

    def pick(self, n):
        if n <= 1:
            return 0
        if self.pos >= len(self.ints):
            return 0
        v = self.ints[self.pos]
        self.pos += 1
        return v % n

    def flag(self, feature=None, odds=3):
        r = self.pick(odds) == 1
        if r and feature:
            self.features.add(feature)
        return r


class Gen:
    def __init__(self, tape, ir_version=None, gen=1):
        self.t = tape
        self.n = 0
        self.ir_version = ir_version
        self.gen = gen  # generator version: stored replay cases (no "gen" field) keep decoding with version 1
        self.pending_main_value_info = []

    def fresh(self, prefix="v"):
        self.n += 1
        deco = ["", "", "", ".1", "/x", "::y", " z"][self.t.pick(7)]
        return f"{prefix}{self.n}{deco}"

    def text(self):
        return TEXTS[self.t.pick(len(TEXTS))]

    def metadata(self, proto_field, feature):
        if self.t.flag(feature):
            k = 1 + self.t.pick(3)
            used = set()
            for _ in range(k):
                key = KEYS[self.t.pick(len(KEYS))]
                if key in used:
                    continue
                used.add(key)
                e = proto_field.add()
                e.key = key
                e.value = self.text()

    # ---- types ------------------------------------------------------------------------
    def shape(self, shape_proto):
        rank = self.t.pick(5)
        shape_proto.ClearField("dim")  # touch: present-but-empty = scalar
        for _ in range(rank):
            d = shape_proto.dim.add()
            k = self.t.pick(5)
            if k == 0:
                d.dim_value = self.t.pick(7)
            elif k == 1:
                pool = ["N", "batch", "seq_len", "N + 1", "floor(N/2)", "a.b"]
                if self.gen >= 4:  # spellings that are not the canonical text of their own expression
                    pool += ["N+1", "H*2", "N//2", "batch-size", "2*N+1", "max(N,1)", "N*1", "(N)"]
                d.dim_param = pool[self.t.pick(len(pool))]
                self.t.features.add("dim_param")
            elif k == 2:
                self.t.features.add("unset_dim")
            elif k == 3:
                d.dim_value = [2**31, 2**40, 1, 0][self.t.pick(4)]
            else:
                d.dim_value = 1 + self.t.pick(4)
            if self.t.flag("dim_denotation", 5):
                d.denotation = ["DATA_BATCH", "DATA_CHANNEL", "x"][self.t.pick(3)]

    def type_(self, tp, depth=0):
        kind = self.t.pick(4 if depth < 3 else 2)
        if self.t.flag("type_denotation", 6):
            tp.denotation = ["TENSOR", "IMAGE", "d"][self.t.pick(3)]
        if kind == 0 or kind == 1:
            tt = tp.tensor_type if kind == 0 else tp.sparse_tensor_type
            if kind == 1:
                self.t.features.add("sparse_tensor_type")
            tt.elem_type = ELEM_TYPES[self.t.pick(len(ELEM_TYPES))]
            if self.t.pick(4) != 1:
                self.shape(tt.shape)
        elif kind == 2:
            self.t.features.add("sequence_type")
            self.type_(tp.sequence_type.elem_type, depth + 1)
        else:
            self.t.features.add("optional_type")
            self.type_(tp.optional_type.elem_type, depth + 1)
        if depth >= 1:
            self.t.features.add("nested_type")

    def value_info(self, vi, name, allow_empty=True):
        vi.name = name
        k = self.t.pick(4)
        if k != 0 or not allow_empty:
            self.type_(vi.type)
        if self.t.flag("value_doc", 6):
            vi.doc_string = self.text()
        self.metadata(vi.metadata_props, "value_metadata")
        return k != 0 or vi.doc_string != "" or len(vi.metadata_props) > 0

    # ---- tensors ----------------------------------------------------------------------
    def tensor(self, tp, name=None, allow_external=True):
        code = ELEM_TYPES[self.t.pick(len(ELEM_TYPES))]
        dims = [[], [2], [3], [0], [2, 3], [1, 1, 2], [5]][self.t.pick(7)]
        size = 1
        for d in dims:
            size *= d
        tp.data_type = code
        tp.dims.extend(dims)
        if name is not None:
            tp.name = name
        elif self.t.flag(None, 2):
            tp.name = self.fresh("t")
        if self.t.flag("tensor_doc", 6):
            tp.doc_string = self.text()
        self.metadata(tp.metadata_props, "tensor_metadata")
        if code == 8:
            tp.string_data.extend([[b"", b"a", b"\xff\x00", "é".encode()][self.t.pick(4)] for _ in range(size)])
            self.t.features.add("string_tensor")
            return
        b, kind = refenc.DT[code]
        if b < 8:
            self.t.features.add("lowbit_tensor")
        if allow_external and self.t.flag("external_tensor", 7):
            tp.data_location = onnx.TensorProto.EXTERNAL
            e = tp.external_data.add()
            locs = ["weights.bin", "sub/dir/w.data", "m.onnx.data"]
            if self.gen >= 3:
                # legal but not canonical spellings: the string is a storage field and has to come back as written
                locs = locs + ["./weights.bin", "sub//w.data", "sub/./w.data", "a/../w.bin", "dir/w.bin/", " spaced name.bin"]
            if self.gen >= 4:
                # characters that are separators elsewhere but ordinary file-name characters here
                locs = locs + ["weights\\layer0.bin", "dir\\sub/w.bin", "w:1.bin", "ünï.bin"]
            e.key, e.value = "location", locs[self.t.pick(len(locs))]
            if self.t.flag():
                e = tp.external_data.add()
                e.key, e.value = "offset", str([0, 4096, 7][self.t.pick(3)])
            if self.t.flag():
                e = tp.external_data.add()
                e.key, e.value = "length", str(refenc.nbytes(code, size))
            if self.t.flag("external_checksum", 4):
                e = tp.external_data.add()
                e.key, e.value = "checksum", "da39a3ee5e6b4b0d3255bfef95601890afd80709"
            return
        pats = []
        mask = (1 << b) - 1
        for i in range(size):
            p = self.t.pick(251) * 0x0101010101010101010101010101010101 & mask
            if kind == "b":
                p &= 1
            pats.append(p)
        raw = refenc.encode(code, pats)
        from props.c04 import TYPED_FIELD  # legal typed field per element type

        if self.t.flag("typed_tensor_field", 3) and size > 0:
            field = TYPED_FIELD[code]
            import numpy as np

            if field == "float_data":
                vals = np.frombuffer(raw, dtype="<f4")
                tp.float_data.extend([float(x) if x == x else 0.0 for x in vals])
            elif field == "double_data":
                vals = np.frombuffer(raw, dtype="<f8")
                tp.double_data.extend([float(x) if x == x else 0.0 for x in vals])
            elif field == "int64_data":
                tp.int64_data.extend(np.frombuffer(raw, dtype="<i8").tolist())
            elif field == "uint64_data":
                tp.uint64_data.extend(pats)
            elif b < 8:
                tp.int32_data.extend(list(raw))
            elif kind == "i":
                tp.int32_data.extend([refenc.int_value(code, p) for p in pats])
            else:
                tp.int32_data.extend(pats)
        else:
            tp.raw_data = raw

    # ---- attributes -------------------------------------------------------------------
    def attribute(self, ap, name, visible, depth, in_function_attrs=None):
        ap.name = name
        if self.t.flag("attr_doc", 6):
            ap.doc_string = self.text()
        if in_function_attrs and self.t.flag("ref_attr", 4):
            ap.ref_attr_name = in_function_attrs[self.t.pick(len(in_function_attrs))]
            ap.type = [onnx.AttributeProto.INT, onnx.AttributeProto.FLOAT, onnx.AttributeProto.TENSOR, onnx.AttributeProto.STRINGS, onnx.AttributeProto.GRAPH][self.t.pick(5)]
            return
        kind = self.t.pick(12 if depth < 2 else 10)
        A = onnx.AttributeProto
        if kind == 0:
            ap.type, ap.i = A.INT, [0, 1, -1, 2**40, -(2**63)][self.t.pick(5)]
        elif kind == 1:
            ap.type, ap.f = A.FLOAT, [0.0, 1.5, -2.25, 3.4028234663852886e38, float("inf")][self.t.pick(5)]
        elif kind == 2:
            ap.type, ap.s = A.STRING, [b"", b"abc", "ünï".encode(), b"\xff\xfe\x00", b"a\x00b"][self.t.pick(5)]
            self.t.features.add("attr_string")
        elif kind == 3:
            ap.type = A.INTS
            ap.ints.extend([self.t.pick(9) - 4 for _ in range(self.t.pick(4))])
        elif kind == 4:
            ap.type = A.FLOATS
            ap.floats.extend([[0.5, -1.0, 1e-30, 65504.0][self.t.pick(4)] for _ in range(self.t.pick(4))])
        elif kind == 5:
            ap.type = A.STRINGS
            ap.strings.extend([[b"", b"x", "é✓".encode()][self.t.pick(3)] for _ in range(self.t.pick(4))])
        elif kind == 6:
            ap.type = A.TENSOR
            self.tensor(ap.t)
            self.t.features.add("attr_tensor")
        elif kind == 7:
            ap.type = A.TENSORS
            for _ in range(self.t.pick(3)):
                self.tensor(ap.tensors.add())
        elif kind == 8:
            ap.type = A.TYPE_PROTO
            self.type_(ap.tp)
            self.t.features.add("attr_type_proto")
        elif kind == 9:
            ap.type = A.TYPE_PROTOS
            for _ in range(self.t.pick(3)):
                self.type_(ap.type_protos.add())
            self.t.features.add("attr_type_proto")
        elif kind == 10:
            ap.type = A.GRAPH
            self.graph(ap.g, visible, depth + 1)
            self.t.features.add("nested_graph")
        else:
            ap.type = A.GRAPHS
            for _ in range(1 + self.t.pick(2)):
                self.graph(ap.graphs.add(), visible, depth + 1)
            self.t.features.add("nested_graph")

    # ---- nodes / graphs -------------------------------------------------------------------
    def node(self, np_, visible, later_outer, depth, fn_attrs=None):
        np_.op_type = OPS[self.t.pick(len(OPS))]
        d = DOMAINS[self.t.pick(len(DOMAINS))]
        if d:
            np_.domain = d
        if self.t.flag("overload", 6):
            np_.overload = ["ovl", "1"][self.t.pick(2)]
        if self.t.pick(3) != 0:
            np_.name = self.fresh("node")
        if self.t.flag("node_doc", 6):
            np_.doc_string = self.text()
        self.metadata(np_.metadata_props, "node_metadata")
        for _ in range(self.t.pick(4)):
            pool = visible + later_outer
            k = self.t.pick(len(pool) + 1)
            if k == len(pool) or not pool:
                np_.input.append("")
                self.t.features.add("optional_input")
            else:
                np_.input.append(pool[k])
                if pool[k] in later_outer:
                    self.t.features.add("capture_declared_later")
        nout = 1 + self.t.pick(3)
        outs = []
        for j in range(nout):
            if j > 0 and self.t.flag("empty_output", 5):
                np_.output.append("")
            else:
                o = self.fresh("v")
                np_.output.append(o)
                outs.append(o)
        names = set()
        for _ in range(self.t.pick(4)):
            an = ["axis", "value", "body", "to", "alpha"][self.t.pick(5)]
            if an in names:
                continue
            names.add(an)
            self.attribute(np_.attribute.add(), an, visible + later_outer + outs, depth, fn_attrs)
        return outs

    def graph(self, gp, outer_visible, depth, top=False):
        if self.t.pick(3) != 0 or top:
            gp.name = self.fresh("graph")
        if self.t.flag("graph_doc", 6):
            gp.doc_string = self.text()
        self.metadata(gp.metadata_props, "graph_metadata")
        own = []
        plain_inputs = []
        for _ in range(self.t.pick(3)):
            nm = self.fresh("in")
            self.value_info(gp.input.add(), nm)
            own.append(nm)
            plain_inputs.append(nm)
        inits = []
        for _ in range(self.t.pick(3)):
            if plain_inputs and self.t.flag("initializer_for_input", 4):
                nm = plain_inputs.pop()
            else:
                nm = self.fresh("w")
                own.append(nm)
            self.tensor(gp.initializer.add(), name=nm)
            inits.append(nm)
        n_nodes = self.t.pick(5) if depth else 1 + self.t.pick(6)
        # names of this graph's node outputs are decided up front so that nested graphs can
        # capture values the outer graph declares later
        produced = []
        node_protos = []
        for i in range(n_nodes):
            np_ = onnx.NodeProto()
            outs = self.node(np_, outer_visible + own + produced, [], depth)
            produced.extend(outs)
            node_protos.append(np_)
        if len(node_protos) > 1 and self.t.flag("unsorted_nodes", 4):
            k = self.t.pick(len(node_protos))
            node_protos = node_protos[k:] + node_protos[:k]
        gp.node.extend(node_protos)
        # outputs
        outs = []
        cand = list(produced)
        for _ in range(min(len(cand), 1 + self.t.pick(2)) if cand else 0):
            o = cand.pop(self.t.pick(len(cand)))
            self.value_info(gp.output.add(), o)
            outs.append(o)
        if self.t.flag("output_is_input", 8) and own and top:
            o = own[self.t.pick(len(own))]
            if o not in outs:
                same = [vi for vi in gp.input if vi.name == o]
                if same:  # one value, one description: the output entry repeats the input entry
                    gp.output.add().CopyFrom(same[0])
                else:
                    self.value_info(gp.output.add(), o)
                outs.append(o)
        # value_info for a subset of intermediate values, plus unreferenced ones
        for v in produced:
            if v not in outs and self.t.flag("value_info", 3):
                vi = onnx.ValueInfoProto()
                if self.value_info(vi, v, allow_empty=False):
                    gp.value_info.append(vi)
        if self.t.flag("unreferenced_value_info", 8):
            self.value_info(gp.value_info.add(), self.fresh("ghost"), allow_empty=False)
        # quantization annotations (each value at most once)
        annotated = set()
        for v in own + produced:
            if v not in annotated and self.t.flag("quantization_annotation", 9):
                annotated.add(v)
                qa = gp.quantization_annotation.add()
                qa.tensor_name = v
                e = qa.quant_parameter_tensor_names.add()
                e.key, e.value = "SCALE_TENSOR", self.fresh("scale")
                if self.t.flag():
                    e = qa.quant_parameter_tensor_names.add()
                    e.key, e.value = "ZERO_POINT_TENSOR", self.fresh("zp")
        if self.gen >= 2:
            # value_info entries for initializers that are not graph inputs (every exporter that ran shape inference
            # writes them): same element type and dims as the tensor, optionally with dimension / type denotations
            input_names = {i.name for i in gp.input} | {o.name for o in gp.output} | {v.name for v in gp.value_info}
            seen_init = set()
            for tp in gp.initializer:
                if tp.name in seen_init:
                    continue
                seen_init.add(tp.name)
                # one value, one description: not for values the graph already describes (inputs, outputs, value_info)
                if tp.name and tp.name not in input_names and tp.data_type and self.t.flag("initializer_value_info", 3):
                    vi = gp.value_info.add()
                    vi.name = tp.name
                    vi.type.tensor_type.elem_type = tp.data_type
                    vi.type.tensor_type.shape.SetInParent()
                    for dv in tp.dims:
                        d = vi.type.tensor_type.shape.dim.add()
                        d.dim_value = dv
                        if self.t.flag("initializer_dim_denotation", 2):
                            d.denotation = ["DATA_BATCH", "DATA_CHANNEL", "x"][self.t.pick(3)]
                    if self.t.flag(None, 4):
                        vi.doc_string = self.text()
        return own + produced

    def function(self, fp, ir_version):
        fp.name = self.fresh("fn").replace("/", "_").replace(":", "_").replace(" ", "_")
        # version 4: a function in the default domain under its alias spelling (kept as written in the function, while
        # nodes calling it normalise the alias away)
        fp.domain = ["custom.domain", "pkg", "f.d", "ai.onnx"][self.t.pick(4)] if self.gen >= 4 else ["custom.domain", "pkg", "f.d"][self.t.pick(3)]
        if ir_version >= 10 and self.t.flag("function_overload", 3):
            fp.overload = ["o1", "o2"][self.t.pick(2)]
        if self.t.flag("function_doc", 5):
            fp.doc_string = self.text()
        self.metadata(fp.metadata_props, "function_metadata")
        fp.opset_import.add(domain="", version=18 + self.t.pick(4))
        if self.t.flag():
            fp.opset_import.add(domain="custom.domain", version=1)
        ins = []
        for _ in range(self.t.pick(3)):
            nm = self.fresh("fin")
            fp.input.append(nm)
            ins.append(nm)
        attrs = []
        for nm in ["alpha", "mode"][: self.t.pick(3)]:
            fp.attribute.append(nm)
            attrs.append(nm)
        for nm in ["beta", "gamma"]:
            if not self.t.flag("function_attr_default", 3):
                break
            ap = onnx.AttributeProto()
            self.attribute(ap, nm, [], 2)
            if ap.type not in (onnx.AttributeProto.GRAPH, onnx.AttributeProto.GRAPHS):
                fp.attribute_proto.add().CopyFrom(ap)
                attrs.append(nm)
        produced = []
        # version 3: a function body may be empty (its outputs are then its inputs)
        n_body = self.t.pick(5) if (self.gen >= 3 and ins) else 1 + self.t.pick(4)
        for _ in range(n_body):
            produced.extend(self.node(fp.node.add(), ins + produced, [], 1, fn_attrs=attrs or None))
        if not produced:
            fp.output.append(ins[0])
            self.t.features.add("function_with_empty_body")
        for _ in range(min(len(produced), 1 + self.t.pick(2))):
            o = produced[self.t.pick(len(produced))]
            if o not in fp.output:
                fp.output.append(o)
        if ir_version >= 10:
            for v in ins + produced:
                if self.t.flag("function_value_info", 3):
                    vi = onnx.ValueInfoProto()
                    if self.value_info(vi, v, allow_empty=False):
                        fp.value_info.append(vi)
        elif self.gen >= 3:
            # before IR version 10 a FunctionProto has no value_info: the entries live in the main graph under
            # "{domain}::{function}/{value}" (what exporters of that time wrote)
            for v in ins + produced:
                if self.t.flag("function_value_info_ir9", 3):
                    vi = onnx.ValueInfoProto()
                    if self.value_info(vi, v, allow_empty=False):
                        vi.name = f"{fp.domain}::{fp.name}/{v}"
                        self.pending_main_value_info.append(vi)

    def model(self):
        mp = onnx.ModelProto()
        irv = self.ir_version or [10, 8, 11, 13, 3, 4, 6, 7, 9, 12, 5][self.t.pick(11)]
        mp.ir_version = irv
        for fld, vals in (("producer_name", ["", "pytorch", "ü"]), ("producer_version", ["", "2.1"]), ("domain", ["", "ai.example"]),
                          ("doc_string", TEXTS)):
            if self.t.flag():
                setattr(mp, fld, vals[self.t.pick(len(vals))])
        if self.t.flag():
            mp.model_version = [0, 1, 2**40][self.t.pick(3)]
        mp.opset_import.add(domain="", version=13 + self.t.pick(10))
        if self.t.flag():
            mp.opset_import.add(domain="custom.domain", version=1 + self.t.pick(3))
        if self.t.flag(None, 5):
            mp.opset_import.add(domain="ai.onnx.ml", version=3)
        self.metadata(mp.metadata_props, "model_metadata")
        values = self.graph(mp.graph, [], 0, top=True)
        if irv >= 8:
            for _ in range(self.t.pick(3)):
                self.function(mp.functions.add(), irv)
                self.t.features.add("function")
            seen_fn = set()
            for vi in self.pending_main_value_info:
                if vi.name not in seen_fn:  # (two generated functions may share domain and name)
                    seen_fn.add(vi.name)
                    mp.graph.value_info.append(vi)
        if irv >= 11 and self.t.flag("device_configuration", 2):
            cfgs = []
            for _ in range(1 + self.t.pick(2)):
                c = mp.configuration.add()
                c.name = self.fresh("cfg").split(" ")[0]
                c.num_devices = 1 + self.t.pick(4)
                if self.t.flag():
                    c.device.extend([f"dev{i}" for i in range(c.num_devices)])
                cfgs.append(c)
            for node in mp.graph.node:
                if not self.t.flag(None, 2):
                    continue
                c = cfgs[self.t.pick(len(cfgs))]
                dc = node.device_configurations.add()
                dc.configuration_id = c.name
                if self.t.flag():
                    dc.pipeline_stage = self.t.pick(3)
                names = [n for n in list(node.input) + list(node.output) if n]
                used = set()
                for _ in range(self.t.pick(3)):
                    if not names:
                        break
                    tn = names[self.t.pick(len(names))]
                    if tn in used:
                        continue
                    used.add(tn)
                    sp = dc.sharding_spec.add()
                    sp.tensor_name = tn
                    sp.device.extend(list(range(self.t.pick(c.num_devices + 1))))
                    if self.t.flag():
                        e = sp.index_to_device_group_map.add()
                        e.key = 0
                        e.value.extend([0, 1][: 1 + self.t.pick(2)])
                    for ax in range(self.t.pick(3)):
                        sd = sp.sharded_dim.add()
                        sd.axis = ax
                        for _ in range(1 + self.t.pick(2)):
                            ss = sd.simple_sharding.add()
                            k = self.t.pick(3)
                            if k == 0:
                                ss.dim_value = 2 + self.t.pick(6)
                            elif k == 1:
                                ss.dim_param = "N"
                            ss.num_shards = 1 + self.t.pick(3)
            if self.gen >= 2:
                # version 2: nodes of nested graphs and of function bodies carry annotations too, and a node may hold a
                # second entry whose configuration_id is not declared on the model (kept as it is by a round trip)
                def deep(graph_like):
                    for node in graph_like.node:
                        yield node
                        for at in node.attribute:
                            if at.type == onnx.AttributeProto.GRAPH and at.HasField("g"):
                                yield from deep(at.g)
                            for sg in at.graphs:
                                yield from deep(sg)

                nested = [n for top in mp.graph.node for at in top.attribute for n in ([] if not (at.HasField("g") or at.graphs) else
                          ([x for x in deep(at.g)] if at.HasField("g") else []) + [x for sg in at.graphs for x in deep(sg)])]
                nested += [n for f in mp.functions for n in deep(f)]
                for node in nested:
                    if not self.t.flag("nested_device_configuration", 3):
                        continue
                    c = cfgs[self.t.pick(len(cfgs))]
                    dc = node.device_configurations.add()
                    dc.configuration_id = c.name
                    if self.t.flag():
                        dc.pipeline_stage = self.t.pick(3)
                    names = [n for n in list(node.input) + list(node.output) if n]
                    if names and self.t.flag():
                        sp = dc.sharding_spec.add()
                        sp.tensor_name = names[self.t.pick(len(names))]
                        sp.device.extend(list(range(self.t.pick(c.num_devices + 1))))
                for node in list(mp.graph.node) + nested:
                    if node.device_configurations and self.t.flag("second_configuration", 2):
                        dc = node.device_configurations.add()
                        used_ids = {d.configuration_id for d in node.device_configurations}
                        free = [c for c in cfgs if c.name not in used_ids]
                        if free and self.t.flag():
                            dc.configuration_id = free[0].name  # placement only: a stage, no sharding specs
                            dc.pipeline_stage = self.t.pick(3)
                        else:
                            dc.configuration_id = "cfg_not_declared"
                            if self.t.flag():
                                dc.pipeline_stage = 1
        return mp


def build_model(ints, ir_version=None, gen=1):
    tape = Tape(ints)
    g = Gen(tape, ir_version, gen)
    mp = g.model()
    return mp, tape.features


def tape_strategy(max_len=400):
    from hypothesis import strategies as st

    return st.sampled_from([20, 60, 150, max_len]).flatmap(
        lambda n: st.lists(st.integers(0, 2**16), min_size=n // 2, max_size=n)
    )

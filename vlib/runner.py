"""Common runner: seeds, sharding, collect-and-bucket, known findings, shrinking, evidence.

A property module (props/cNN.py) exposes:

    ID            "C01"
    LEVEL         "exploration" | "fault_enumeration"
    RULE          text: how cases are generated and what makes one non-trivial
    ASSUMPTIONS   list[str]
    BUDGET        {"quick": (shards, cases_per_shard), "thorough": (shards, cases_per_shard)}
    def strategy(tier, phase) -> hypothesis strategy producing a JSON-able case
    def execute(case) -> Outcome
    PHASES        optional list of phase names (default ["main"]); budget is split evenly
    def selftest() -> None   optional; raise on a broken oracle (=> exit 2)
    def extra(tier, seed, collector) optional: non-hypothesis enumeration part

Outcome = dict(failures=[(bucket, message)], nontrivial=bool, classes=[str], sample=<json or None>)

Exit codes: 0 held (maybe KNOWN-FINDING lines), 1 unlisted violation, 2 harness error.
"""

from __future__ import annotations

import hashlib
import importlib
import json
import multiprocessing as mp
import os
import signal
import sys
import time
import traceback
from collections import Counter

VERIF = os.path.dirname(os.path.dirname(os.path.abspath(__file__)))
REPO_SRC = os.environ.get("VERIF_REPO_SRC", "/repo/src")


def setup_path():
    if REPO_SRC not in sys.path:
        sys.path.insert(0, REPO_SRC)
    if VERIF not in sys.path:
        sys.path.insert(0, VERIF)
    import logging

    logging.disable(logging.CRITICAL)
    import warnings

    warnings.filterwarnings("ignore")


def canon_json(case) -> str:
    return json.dumps(case, sort_keys=True, separators=(",", ":"), default=_json_default)


def _json_default(o):
    if isinstance(o, bytes):
        return {"__bytes__": o.hex()}
    if isinstance(o, tuple):
        return list(o)
    raise TypeError(type(o))


def fingerprint(case) -> str:
    return hashlib.sha1(canon_json(case).encode()).hexdigest()[:16]


def load_known(prop_id):
    """JSON lines of known_findings.txt for this property ("fixed:" lines suppress nothing)."""
    path = os.path.join(VERIF, "known_findings.txt")
    out = []
    if os.path.exists(path):
        for line in open(path):
            line = line.strip()
            if not line.startswith("{"):
                continue
            rec = json.loads(line)
            if rec.get("property") == prop_id:
                out.append(rec)
    return out


class Collector:
    """Per-process accumulator."""

    def __init__(self):
        self.evaluations = 0
        self.nontrivial = set()
        self.classes = Counter()
        self.failures = {}  # bucket -> (size, case, message)
        self.failure_counts = Counter()
        self.samples = []
        self.errors = []  # harness errors
        self.extra = {}

    def record(self, case, outcome):
        self.evaluations += outcome.get("evals", 1)
        for c in outcome.get("classes", ()):
            self.classes[c] += 1
        if outcome.get("nontrivial"):
            keys = outcome.get("nontrivial_keys")
            if keys is not None:
                fresh = False
                for k in keys:
                    h = hashlib.sha1(str(k).encode()).hexdigest()[:16]
                    if h not in self.nontrivial:
                        self.nontrivial.add(h)
                        fresh = True
                fp = None if fresh else next(iter(self.nontrivial))
            else:
                fp = fingerprint(case)
                fresh = fp not in self.nontrivial
            if fresh:
                if fp is not None:
                    self.nontrivial.add(fp)
                if len(self.samples) < 3:
                    s = outcome.get("sample", case)
                    txt = canon_json(s)
                    if len(txt) > 2000:
                        txt = txt[:2000] + "...<truncated>"
                    self.samples.append(txt)
        for bucket, msg in outcome.get("failures", ()):
            self.failure_counts[bucket] += 1
            fcase = outcome.get("failing_case", case)
            size = len(canon_json(fcase))
            old = self.failures.get(bucket)
            if old is None or size < old[0]:
                self.failures[bucket] = (size, fcase, msg)

    def dump(self):
        return dict(
            evaluations=self.evaluations,
            nontrivial=list(self.nontrivial),
            classes=dict(self.classes),
            failures={k: list(v) for k, v in self.failures.items()},
            failure_counts=dict(self.failure_counts),
            samples=self.samples,
            errors=self.errors,
            extra=self.extra,
        )


def merge(dumps):
    tot = Collector()
    for d in dumps:
        tot.evaluations += d["evaluations"]
        tot.nontrivial.update(d["nontrivial"])
        tot.classes.update(d["classes"])
        tot.failure_counts.update(d["failure_counts"])
        for b, (size, case, msg) in d["failures"].items():
            old = tot.failures.get(b)
            if old is None or size < old[0]:
                tot.failures[b] = (size, case, msg)
        for s in d["samples"]:
            if len(tot.samples) < 5:
                tot.samples.append(s)
        tot.errors.extend(d["errors"])
        for k, v in d.get("extra", {}).items():
            if isinstance(v, (int, float)):
                tot.extra[k] = tot.extra.get(k, 0) + v
            else:
                tot.extra.setdefault(k, v)
    return tot


class _CaseTimeout(BaseException):
    pass


def _case_alarm(signum, frame):
    raise _CaseTimeout()


def _shard_worker(args):
    mod_name, tier, seed, shard, n_cases, phase = args
    setup_path()
    col = Collector()
    try:
        mod = importlib.import_module(mod_name)
        import hypothesis
        from hypothesis import HealthCheck, Phase, given, settings

        strat = mod.strategy(tier, phase)
        if strat is not None and n_cases > 0:

            @hypothesis.seed(seed * 100003 + shard * 101 + (hash_phase(phase) % 97))
            @settings(
                max_examples=n_cases,
                database=None,
                deadline=None,
                derandomize=False,
                report_multiple_bugs=False,
                phases=[Phase.generate],
                suppress_health_check=[HealthCheck.too_slow, HealthCheck.data_too_large, HealthCheck.large_base_example],
            )
            @given(strat)
            def test(case):
                # watchdog: a case that is still running after VERIF_CASE_TIMEOUT seconds (default 300) is abandoned and
                # counted as inconclusive (never as a violation); properties about termination (C09, C11, C17) carry
                # their own, much shorter, alarms inside execute() and report those as violations themselves
                old = signal.signal(signal.SIGALRM, _case_alarm)
                # (an interval timer: if the first expiry lands inside a callback that swallows exceptions - Hypothesis's
                # gc hook does - the alarm fires again a second later)
                signal.setitimer(signal.ITIMER_REAL, float(os.environ.get("VERIF_CASE_TIMEOUT", str(getattr(mod, "CASE_TIMEOUT", 300)))), 1.0)
                try:
                    outcome = mod.execute(case)
                except _CaseTimeout:
                    signal.setitimer(signal.ITIMER_REAL, 0)
                    col.record(case, dict(failures=[], nontrivial=False, classes=["case_timeout_inconclusive"]))
                    col.extra.setdefault("timed_out_cases", [])
                    if len(col.extra["timed_out_cases"]) < 3:
                        col.extra["timed_out_cases"].append(canon_json(case)[:1500])
                    return
                except Exception:  # harness error: do not turn into violation
                    col.errors.append(
                        "harness exception in execute: " + traceback.format_exc()[-1500:]
                    )
                    return
                finally:
                    signal.setitimer(signal.ITIMER_REAL, 0)
                    signal.signal(signal.SIGALRM, old)
                col.record(case, outcome)

            test()
        if hasattr(mod, "extra") and phase == "main":
            mod.extra(tier, seed, shard, col)
    except Exception:
        col.errors.append("shard failure: " + traceback.format_exc()[-3000:])
    return col.dump()


def hash_phase(phase: str) -> int:
    return int(hashlib.sha1(phase.encode()).hexdigest()[:6], 16)


def run_shards(mod, tier, seed):
    shards, per = mod.BUDGET[tier]
    scale = float(os.environ.get("VERIF_SCALE", "1"))
    per = max(1, int(per * scale))
    phases = getattr(mod, "PHASES", ["main"])
    jobs = []
    weights = getattr(mod, "PHASE_WEIGHTS", None)
    for p_i, phase in enumerate(phases):
        n = per // len(phases) if len(phases) > 1 else per
        if weights:
            n = int(round(per * weights[phase]))
        for s in range(shards):
            jobs.append((mod.__name__, tier, seed, s, max(1, n), phase))
    nproc = int(os.environ.get("VERIF_PROCS", str(min(16, os.cpu_count() or 1))))
    if nproc <= 1 or len(jobs) == 1:
        dumps = [_shard_worker(j) for j in jobs]
    else:
        dumps = _run_jobs(jobs, min(nproc, len(jobs)))
    return merge(dumps)


def _run_jobs(jobs, nproc):
    """Run the shard jobs in spawned worker processes.  A worker that dies (killed by the kernel, a crash of the
    interpreter) must neither hang the run nor pass silently: the shards that were lost are run again, one process each;
    a shard whose process dies a second time is reported as a harness error (exit 2), never as a violation."""
    import concurrent.futures as cf
    from concurrent.futures.process import BrokenProcessPool

    ctx = mp.get_context("spawn")
    results = {}
    lost = []
    with cf.ProcessPoolExecutor(max_workers=nproc, mp_context=ctx) as ex:
        futs = {ex.submit(_shard_worker, j): i for i, j in enumerate(jobs)}
        for f in cf.as_completed(futs):
            i = futs[f]
            try:
                results[i] = f.result()
            except BrokenProcessPool:
                lost.append(i)
    for i in sorted(lost):
        try:
            with cf.ProcessPoolExecutor(max_workers=1, mp_context=ctx) as ex:
                results[i] = ex.submit(_shard_worker, jobs[i]).result()
            results[i].setdefault("extra", {})["shards_run_again_after_a_worker_died"] = 1
        except BrokenProcessPool:
            col = Collector()
            col.errors.append(f"worker process of shard {jobs[i][3]} (phase {jobs[i][5]}) died twice; its cases were not evaluated")
            results[i] = col.dump()
    return [results[i] for i in range(len(jobs))]


def bucket_matches(rec_bucket: str, bucket: str) -> bool:
    import fnmatch

    return fnmatch.fnmatchcase(bucket, rec_bucket)


def shrink_bucket(mod, case, bucket, time_cap):
    from vlib import shrink

    def reproduces(c):
        try:
            out = mod.execute(c)
        except Exception:
            return False
        return any(b == bucket for b, _ in out.get("failures", ()))

    if not reproduces(case):
        return case
    return shrink.shrink(case, reproduces, time_cap=time_cap)


def write_evidence(mod, tier, seed, col, wall, violations, known_hit, extra_cov=None):
    if os.environ.get("VERIF_NO_EVIDENCE"):  # mutation runs must not overwrite real evidence
        return
    os.makedirs(os.path.join(VERIF, "evidence"), exist_ok=True)
    cov = dict(
        evaluations=col.evaluations,
        distinct_nontrivial=len(col.nontrivial),
        rule=mod.RULE,
        samples=[_maybe_json(s) for s in col.samples] or ["<none>"],
        classes=dict(sorted(col.classes.items())),
        failure_buckets=dict(sorted(col.failure_counts.items())),
        known_findings_hit=known_hit,
        exhaustive=False,
    )
    cov.update(col.extra)
    if extra_cov:
        cov.update(extra_cov)
    ev = dict(
        property_id=mod.ID,
        tier=tier,
        seed=seed,
        level=mod.LEVEL,
        coverage=cov,
        assumptions=list(mod.ASSUMPTIONS),
        wall_s=round(wall, 2),
        violations=violations,
        repo=_repo_info(),
    )
    path = os.path.join(VERIF, "evidence", f"{mod.ID}.json")
    with open(path, "w") as f:
        json.dump(ev, f, indent=1, default=_json_default)
        f.write("\n")


def _maybe_json(s):
    try:
        return json.loads(s)
    except Exception:
        return s


def _repo_info():
    info = {"src": REPO_SRC}
    try:
        import subprocess

        info["head"] = subprocess.run(
            ["git", "-C", "/repo", "rev-parse", "--short", "HEAD"],
            capture_output=True,
            text=True,
            timeout=10,
        ).stdout.strip()
    except Exception:
        pass
    return info


def run_replays(mod, known):
    """Replay tier: re-execute saved replays of known/fixed findings and regression corpus."""
    results = {}  # bucket -> reproduced bool
    rdir = os.path.join(VERIF, "replays", mod.ID)
    files = []
    if os.path.isdir(rdir):
        files = sorted(f for f in os.listdir(rdir) if f.endswith(".json"))
    hits = Counter()
    n = 0
    for f in files:
        try:
            rec = json.load(open(os.path.join(rdir, f)))
            case = rec["case"] if isinstance(rec, dict) and "case" in rec else rec
            out = mod.execute(case)
            n += 1
            for b, msg in out.get("failures", ()):
                hits[b] += 1
                results.setdefault(b, (case, msg, f))
        except Exception:
            print(f"NOTE: replay file {f} could not be executed: {traceback.format_exc()[-400:]}")
    return results, n


def main_run(mod_name, tier, seed, replay=None):
    setup_path()
    t0 = time.time()
    try:
        mod = importlib.import_module(mod_name)
    except Exception:
        traceback.print_exc()
        print("HARNESS-ERROR: cannot import property module")
        return 2

    if replay is not None:
        rec = json.load(open(replay))
        case = rec["case"] if isinstance(rec, dict) and "case" in rec else rec
        out = mod.execute(case)
        fails = out.get("failures", [])
        known = load_known(mod.ID)
        rc = 0
        for b, msg in fails:
            k = [r for r in known if r.get("status") == "known" and bucket_matches(r["bucket"], b)]
            if k:
                print(f"KNOWN-FINDING: property={mod.ID} {k[0]['what']} [bucket {b}]")
            else:
                print(f"VIOLATION property={mod.ID} replay={replay}")
                print(f"  bucket={b}: {msg}")
                rc = 1
        if not fails:
            print(f"replay {replay}: property held")
        return rc

    # oracle self-test
    if hasattr(mod, "selftest"):
        try:
            mod.selftest()
        except Exception:
            traceback.print_exc()
            print("HARNESS-ERROR: oracle self-test failed")
            return 2

    known = load_known(mod.ID)
    replay_hits, n_replays = run_replays(mod, known)

    col = run_shards(mod, tier, seed)
    col.extra["replays_executed"] = n_replays

    if col.errors:
        for e in col.errors[:5]:
            print("HARNESS-ERROR:", e)
        # still write evidence so the state is visible, but exit 2
        write_evidence(mod, tier, seed, col, time.time() - t0, 0, [])
        return 2

    # merge replay hits into failures
    for b, (case, msg, f) in replay_hits.items():
        if b not in col.failures:
            col.failures[b] = (len(canon_json(case)), case, msg)
        col.failure_counts[b] += 1

    violations = 0
    known_hit = []
    printed_known = set()
    shrink_cap = float(os.environ.get("VERIF_SHRINK_S", "40" if tier == "quick" else "120"))
    for bucket in sorted(col.failures):
        size, case, msg = col.failures[bucket]
        krecs = [r for r in known if r.get("status") == "known" and bucket_matches(r["bucket"], bucket)]
        if krecs:
            r = krecs[0]
            key = r["bucket"]
            if key not in printed_known:
                printed_known.add(key)
                print(f"KNOWN-FINDING: property={mod.ID} {r['what']}")
            known_hit.append(bucket)
            continue
        # unlisted => shrink + VIOLATION
        small = shrink_bucket(mod, case, bucket, shrink_cap)
        rdir = os.path.join(VERIF, "replays", mod.ID)
        os.makedirs(rdir, exist_ok=True)
        fname = "violation_" + hashlib.sha1(bucket.encode()).hexdigest()[:10] + ".json"
        path = os.path.join(rdir, fname)
        with open(path, "w") as f:
            json.dump({"property": mod.ID, "bucket": bucket, "message": msg, "case": small}, f, indent=1, default=_json_default)
            f.write("\n")
        print(f"VIOLATION property={mod.ID} replay={path}")
        print(f"  bucket={bucket} count={col.failure_counts[bucket]}: {msg[:600]}")
        violations += 1
    for r in known:
        if r.get("status") == "known" and r["bucket"] not in printed_known:
            print(f"STALE-FINDING: property={mod.ID} bucket {r['bucket']} listed as known did not reproduce in this run")

    wall = time.time() - t0
    write_evidence(mod, tier, seed, col, wall, violations, known_hit)
    print(
        f"{mod.ID} tier={tier} seed={seed} evaluations={col.evaluations} "
        f"distinct_nontrivial={len(col.nontrivial)} buckets={len(col.failures)} "
        f"violations={violations} wall={wall:.1f}s"
    )
    return 1 if violations else 0

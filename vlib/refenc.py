"""Independent bit-level tensor codec (plain integer arithmetic) used as the C04/C07 reference.

A logical tensor is (dtype code, shape, list of element *bit patterns*), each pattern an int in
[0, 2**bitwidth).  encode() packs them into the ONNX little-endian byte layout; values() gives
the mathematical element values for integer types.
"""

from __future__ import annotations

# ONNX TensorProto.DataType codes -> (bitwidth, kind)
DT = {
    1: (32, "f"),  # FLOAT
    2: (8, "u"),  # UINT8
    3: (8, "i"),  # INT8
    4: (16, "u"),  # UINT16
    5: (16, "i"),  # INT16
    6: (32, "i"),  # INT32
    7: (64, "i"),  # INT64
    9: (8, "b"),  # BOOL
    10: (16, "f"),  # FLOAT16
    11: (64, "f"),  # DOUBLE
    12: (32, "u"),  # UINT32
    13: (64, "u"),  # UINT64
    14: (64, "c"),  # COMPLEX64
    15: (128, "c"),  # COMPLEX128
    16: (16, "f"),  # BFLOAT16
    17: (8, "f"),
    18: (8, "f"),
    19: (8, "f"),
    20: (8, "f"),
    21: (4, "u"),  # UINT4
    22: (4, "i"),  # INT4
    23: (4, "f"),  # FLOAT4E2M1
    24: (8, "f"),  # FLOAT8E8M0
    25: (2, "u"),  # UINT2
    26: (2, "i"),  # INT2
}
NAMES = {
    1: "FLOAT", 2: "UINT8", 3: "INT8", 4: "UINT16", 5: "INT16", 6: "INT32", 7: "INT64", 8: "STRING",
    9: "BOOL", 10: "FLOAT16", 11: "DOUBLE", 12: "UINT32", 13: "UINT64", 14: "COMPLEX64",
    15: "COMPLEX128", 16: "BFLOAT16", 17: "FLOAT8E4M3FN", 18: "FLOAT8E4M3FNUZ", 19: "FLOAT8E5M2",
    20: "FLOAT8E5M2FNUZ", 21: "UINT4", 22: "INT4", 23: "FLOAT4E2M1", 24: "FLOAT8E8M0", 25: "UINT2",
    26: "INT2",
}


def bitwidth(code):
    return DT[code][0]


def nbytes(code, size):
    b = DT[code][0]
    return (size * b + 7) // 8


def encode(code, patterns):
    """Little-endian bit stream: element i occupies bits [i*b, (i+1)*b)."""
    b = DT[code][0]
    total = 0
    for i, p in enumerate(patterns):
        assert 0 <= p < (1 << b)
        total |= p << (i * b)
    n = (len(patterns) * b + 7) // 8
    return total.to_bytes(n, "little")


def decode(code, data, size):
    b = DT[code][0]
    total = int.from_bytes(data, "little")
    mask = (1 << b) - 1
    return [(total >> (i * b)) & mask for i in range(size)]


def int_value(code, pattern):
    b, kind = DT[code]
    if kind == "i":
        return pattern - (1 << b) if pattern >> (b - 1) else pattern
    return pattern


def special_patterns(code):
    """Interesting bit patterns per dtype: zero, sign bit, all ones, exponent-all-ones (inf/NaN)..."""
    b, kind = DT[code]
    if kind == "b":
        return [0, 1]
    full = (1 << b) - 1
    out = [0, 1, full, 1 << (b - 1), (1 << (b - 1)) - 1, (1 << (b - 1)) | 1]
    if kind == "f" and b >= 8:
        exp_mant = {8: None, 16: None, 32: (8, 23), 64: (11, 52)}.get(b)
        if code == 10:
            exp_mant = (5, 10)
        if code == 16:
            exp_mant = (8, 7)
        if exp_mant:
            e, m = exp_mant
            inf = ((1 << e) - 1) << m
            out += [inf, inf | 1, inf | (1 << (m - 1)), (1 << (b - 1)) | inf, inf - 1, 1 << m]
    if kind == "c":
        h = b // 2
        e, m = (8, 23) if h == 32 else (11, 52)
        inf = ((1 << e) - 1) << m
        out += [inf | ((inf | 1) << h), (inf | 1) | (1 << (b - 1))]
    return [p & full for p in out]

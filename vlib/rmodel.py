"""Tape-driven generator of checker-valid, *runnable* ONNX models for the pass properties (C05/C14/C18).

Operator subset implemented by onnxruntime-CPU and cared about by the built-in passes: Add Sub Mul Neg Abs
Relu Identity Softmax Greater Less Where Cast Clip(optional inputs) Concat Split(multi-output) Dropout
BatchNormalization(training_mode, optional outputs) Constant(all attribute forms) If Loop and calls to
model-local functions (attribute parameters with and without defaults, reference attributes, nested calls).
Deliberately frequent shapes: duplicate sub-expressions (also differing in exactly one attribute / input
slot / output count), duplicate initializers, Identity chains touching inputs / initializers / outputs /
captured values, outputs aliasing inputs, unused nodes and unused optional outputs, small colliding names.
Values carry a kind tag: F23 (float[2,3]), F3 (float[3]), F (float scalar), B23 (bool[2,3]), B (bool scalar),
I23 (int64[2,3]).
"""

from __future__ import annotations

import numpy as np
import onnx
from onnx import TensorProto as TP
from onnx import helper as oh
from onnx import numpy_helper as nph

from vlib.protogen import Tape

OPSET = 18
VI = {
    "F23": (TP.FLOAT, [2, 3]), "F3": (TP.FLOAT, [3]), "F": (TP.FLOAT, []), "B23": (TP.BOOL, [2, 3]), "B": (TP.BOOL, []),
    "I23": (TP.INT64, [2, 3]), "F43": (TP.FLOAT, [4, 3]),
}


def vinfo(name, kind):
    dt, shape = VI[kind]
    return oh.make_tensor_value_info(name, dt, shape)


class RGen:
    def __init__(self, tape, gen=1):
        self.t = tape
        self.gen = gen  # generator version: stored replay cases (no "gen" field) keep decoding with version 1
        # version 2: the default-domain opset varies (the op set used is valid from 18 on; Cast, Identity, If, Loop and
        # Constant have newer schema versions with other attribute sets at 19 and 21)
        self.opset = [18, 18, 19, 21][tape.pick(4)] if gen >= 2 else OPSET
        self.n = 0
        self.features = set()
        self.bn = 0
        self.extra_inits = []
        self.functions = {}  # name -> FunctionProto
        self.fn_sigs = {}  # name -> (n_inputs, attrs)

    def fresh(self, p="v"):
        self.n += 1
        # small, colliding-looking alphabet on purpose
        return f"{p}_{self.n}" if self.t.pick(4) else f"val_{self.n}"

    def pick_kind(self, pool, kind):
        c = [v for v, k in pool if k == kind]
        if not c:
            return None
        return c[self.t.pick(len(c))]

    # ---- node templates: each returns list of (name, kind) produced and appends NodeProtos ----------
    def emit(self, nodes, pool, depth, consts):
        t = self.t
        k = t.pick(19)
        if k == 17 and self.gen >= 3 and self.fn_sigs:
            k = 14  # (version 3: calls to model-local functions twice as often)
        if k in (17, 18):
            k = 15
        if self.gen >= 7 and depth in (1, 2) and t.pick(3) == 0:
            k = 12  # (version 7: inside a nested graph every third node is a further If, so that three levels are common)
        F23 = lambda: self.pick_kind(pool, "F23")
        a = F23()
        if a is None:
            return []
        out = self.fresh()
        if self.gen >= 5 and t.pick(10) == 0:
            # version 5: two constants that differ in nothing but the sign of zero, each the divisor of the same value
            z1, z2, o2 = self.fresh("zp"), self.fresh("zn"), self.fresh()
            form = t.pick(2)
            for zname, zval in ((z1, 0.0), (z2, -0.0)):
                if form == 0:
                    nodes.append(oh.make_node("Constant", [], [zname], value_float=zval, name=self.nname("Constant")))
                else:
                    nodes.append(oh.make_node("Constant", [], [zname], value_floats=[1.0, zval, 2.0], name=self.nname("Constant")))
            nodes.append(oh.make_node("Div", [a, z1], [out], name=self.nname("Div")))
            nodes.append(oh.make_node("Div", [a, z2], [o2], name=self.nname("Div")))
            self.features.add("constants_differing_in_the_sign_of_zero")
            return [(out, "F23"), (o2, "F23")]
        if self.gen >= 5 and self.opset >= 17 and t.pick(14) == 0:
            # version 5: twin nodes with optional outputs, one of which omits the middle output that the other one's
            # consumers need (LayerNormalization: Y, Mean, InvStdDev)
            sc = self.pick_kind(pool, "F3")
            if sc is not None:
                y1, i1, y2, m2, i2, o1, o2 = (self.fresh() for _ in range(7))
                first = [oh.make_node("LayerNormalization", [a, sc], [y1, "", i1], axis=-1, name=self.nname("LayerNormalization")),
                         oh.make_node("LayerNormalization", [a, sc], [y2, m2, i2], axis=-1, name=self.nname("LayerNormalization"))]
                if t.pick(2):
                    first.reverse()
                nodes.extend(first)
                nodes.append(oh.make_node("Add", [y1, i1], [o1], name=self.nname("Add")))
                nodes.append(oh.make_node("Add", [y2, m2], [o2], name=self.nname("Add")))
                self.features.add("duplicate_differs_in_omitted_optional_output")
                self.features.add("duplicate_subexpression")
                return [(o1, "F23"), (o2, "F23")]
        if self.gen >= 5 and t.pick(14) == 0:
            # version 5: a value that is not a tensor (a sequence built and indexed on the spot; its type is declared nowhere)
            ci, sq = self.fresh("ci"), self.fresh("sq")
            nodes.append(oh.make_node("Constant", [], [ci], value_int=t.pick(2), name=self.nname("Constant")))
            nodes.append(oh.make_node("SequenceConstruct", [a, F23()], [sq], name=self.nname("SequenceConstruct")))
            nodes.append(oh.make_node("SequenceAt", [sq, ci], [out], name=self.nname("SequenceAt")))
            self.features.add("sequence_typed_value")
            return [(out, "F23")]
        if k == 0 or k == 1:
            b = [F23(), self.pick_kind(pool, "F3"), self.pick_kind(pool, "F")][t.pick(3)] or F23()
            # version 5: division too (by the scalar constants 0.0 / -0.0 among others: the sign of a zero decides the result)
            op = ["Add", "Sub", "Mul", "Div"][t.pick(4)] if self.gen >= 5 else ["Add", "Sub", "Mul"][t.pick(3)]
            ins = [a, b] if t.pick(2) else [b, a]
            nodes.append(oh.make_node(op, ins, [out], name=self.nname(op)))
            return [(out, "F23")]
        if k == 2:
            op = ["Neg", "Abs", "Relu", "Identity", "Identity"][t.pick(5)]
            nodes.append(oh.make_node(op, [a], [out], name=self.nname(op)))
            if op == "Identity":
                self.features.add("identity")
            return [(out, "F23")]
        if k == 3:
            nodes.append(oh.make_node("Softmax", [a], [out], axis=[-1, 0, 1][t.pick(3)], name=self.nname("Softmax")))
            return [(out, "F23")]
        if k == 4:
            b = F23()
            nodes.append(oh.make_node(["Greater", "Less"][t.pick(2)], [a, b], [out], name=self.nname("Cmp")))
            return [(out, "B23")]
        if k == 5:
            c = self.pick_kind(pool, "B23")
            if c is None:
                return []
            nodes.append(oh.make_node("Where", [c, a, F23()], [out], name=self.nname("Where")))
            return [(out, "F23")]
        if k == 6:
            i = self.pick_kind(pool, "I23")
            if i is not None and t.pick(2):
                nodes.append(oh.make_node("Cast", [i], [out], to=TP.FLOAT, name=self.nname("Cast")))
                return [(out, "F23")]
            nodes.append(oh.make_node("Cast", [a], [out], to=TP.INT64, name=self.nname("Cast")))
            return [(out, "I23")]
        if k == 7:
            lo = self.pick_kind(pool, "F") if t.pick(2) else None
            hi = self.pick_kind(pool, "F") if t.pick(2) else None
            ins = [a, lo or "", hi or ""]
            while ins and ins[-1] == "":
                if t.pick(2):
                    break  # keep a trailing empty input sometimes
                ins.pop()
            nodes.append(oh.make_node("Clip", ins, [out], name=self.nname("Clip")))
            self.features.add("optional_input")
            if self.gen >= 2 and bool(lo) != bool(hi) and t.pick(2):
                # twin with the same present inputs but the omitted optional input in the other slot: Clip(x, c) / Clip(x, "", c)
                out2 = self.fresh()
                nodes.append(oh.make_node("Clip", [a, hi or "", lo or ""] if hi else [a, "", lo], [out2], name=self.nname("Clip")))
                self.features.add("duplicate_differs_in_optional_slot")
                self.features.add("duplicate_subexpression")
                return [(out, "F23"), (out2, "F23")]
            return [(out, "F23")]
        if k == 8:
            cat = self.fresh()
            nodes.append(oh.make_node("Concat", [a, F23()], [cat], axis=0, name=self.nname("Concat")))
            o1, o2 = self.fresh(), self.fresh()
            nodes.append(oh.make_node("Split", [cat], [o1, o2], axis=0, num_outputs=2, name=self.nname("Split")))
            self.features.add("multi_output")
            return [(cat, "F43"), (o1, "F23"), (o2, "F23")]
        if k == 9:
            outs = [out] + ([self.fresh()] if t.pick(2) else [])
            ins = [a] if t.pick(2) else [a, ""]  # ratio omitted (an arbitrary float would be rejected at run time)
            nodes.append(oh.make_node("Dropout", [x for x in ins], outs, name=self.nname("Dropout")))
            self.features.add("optional_output")
            res = [(out, "F23")] + ([(outs[1], "B23")] if len(outs) > 1 else [])
            if self.gen >= 2 and t.pick(2):
                # twin with the same inputs and attributes but the other number of outputs (mask requested / not requested)
                outs2 = [self.fresh()] + ([self.fresh()] if len(outs) == 1 else [])
                nodes.append(oh.make_node("Dropout", [x for x in ins], outs2, name=self.nname("Dropout")))
                self.features.add("duplicate_subexpression")
                self.features.add("duplicate_differs_in_output_count")
                res += [(outs2[0], "F23")] + ([(outs2[1], "B23")] if len(outs2) > 1 else [])
            return res
        if k == 10:
            f3 = [self.pick_kind(pool, "F3") for _ in range(2)]
            if any(x is None for x in f3):
                return []
            tm = t.pick(2)
            # running mean / variance get dedicated, uniquely valued tensors: onnxruntime's training-mode kernel
            # aliases these inputs with its outputs, so sharing them with other operands is engine-specific
            self.bn += 1
            mname, vname = f"bn_mean_{self.bn}", f"bn_var_{self.bn}"
            self.extra_inits.append(nph.from_array(np.array([0.5, 1.0, 1.5], dtype=np.float32) + self.bn, name=mname))
            self.extra_inits.append(nph.from_array(np.array([1.0, 2.0, 3.0], dtype=np.float32) + self.bn, name=vname))
            f3 = f3 + [mname, vname]
            outs = [out] + ([self.fresh(), self.fresh()] if tm else [])
            nodes.append(oh.make_node("BatchNormalization", [a] + f3, outs, training_mode=tm, epsilon=1e-3, name=self.nname("BN")))
            self.features.add("batchnorm_training" if tm else "batchnorm")
            return [(out, "F23")] + ([(outs[1], "F3"), (outs[2], "F3")] if tm else [])
        if k == 11:
            return self.constant(nodes)
        # version 7: a third level of nesting (versions up to 6 stop at two and are frozen)
        if k == 12 and depth < (3 if self.gen >= 7 else 2):
            return self.if_node(nodes, pool, depth)
        if k == 13 and depth < (3 if self.gen >= 7 else 2):
            return self.loop_node(nodes, pool, depth)
        if k == 14 and self.fn_sigs:
            return self.call(nodes, pool)
        if k == 15 and nodes:
            # duplicate sub-expression (CSE bait): copy an earlier node, optionally change exactly one thing
            src = nodes[t.pick(len(nodes))]
            if src.op_type in ("If", "Loop", "Split", "Constant", "BatchNormalization", "Sum") or src.domain:
                # (a duplicated training-mode BatchNormalization would share its running mean/var tensors, which
                # onnxruntime updates in place - an engine artefact, not something a pass is responsible for)
                return []
            dup = onnx.NodeProto()
            dup.CopyFrom(src)
            dup.name = self.nname(src.op_type)
            newouts = [self.fresh() for _ in src.output]
            del dup.output[:]
            dup.output.extend(newouts)
            change = 2 if (src.op_type == "Sub" and t.pick(2)) else t.pick(4)
            if change == 1 and dup.attribute and dup.attribute[0].type == onnx.AttributeProto.INT and src.op_type == "Softmax":
                dup.attribute[0].i = 0 if dup.attribute[0].i != 0 else 1
            elif change == 2 and len(dup.input) >= 2 and src.op_type in ("Add", "Mul", "Sub"):
                i0, i1 = dup.input[0], dup.input[1]
                dup.input[0], dup.input[1] = i1, i0
            elif change in (1, 3) and src.op_type == "Clip" and len(dup.input) >= 2:
                # same present inputs, but the omitted optional input sits in the other slot: Clip(x, c) vs Clip(x, "", c)
                ins3 = (list(dup.input) + ["", ""])[:3]
                if bool(ins3[1]) != bool(ins3[2]):
                    del dup.input[:]
                    dup.input.extend([ins3[0], ins3[2], ins3[1]] if ins3[1] else [ins3[0], ins3[2]])
                    self.features.add("duplicate_differs_in_optional_slot")
            if self.gen >= 2 and src.op_type == "Dropout" and change in (0, 3):
                # same inputs and attributes, another number of outputs (the optional mask requested or not)
                if len(dup.output) == 1:
                    mask = self.fresh()
                    dup.output.append(mask)
                    nodes.append(dup)
                    self.features.add("duplicate_subexpression")
                    self.features.add("duplicate_differs_in_output_count")
                    return [(dup.output[0], "F23"), (mask, "B23")]
                del dup.output[1:]
                newouts = list(dup.output)
                self.features.add("duplicate_differs_in_output_count")
            nodes.append(dup)
            self.features.add("duplicate_subexpression")
            kinds = [k_ for v, k_ in pool if v in src.output]
            return [(o, kk) for o, kk in zip(newouts, kinds)] if len(kinds) == len(newouts) else []
        if k == 16:
            # Identity chain on a graph input / initializer (interesting for identity elimination)
            src = [v for v, kk in pool if kk == "F23" and (v.startswith("x") or v.startswith("w"))]
            if not src:
                return []
            s = src[t.pick(len(src))]
            nodes.append(oh.make_node("Identity", [s], [out], name=self.nname("Identity")))
            self.features.add("identity")
            return [(out, "F23")]
        return []

    def nname(self, op):
        self.n += 1
        return ["", f"node_{op}_{self.n}", f"n{self.n}"][self.t.pick(3)]

    def constant(self, nodes):
        t = self.t
        out = self.fresh("c")
        form = t.pick(8)
        self.features.add("constant")
        if form == 0:
            arr = np.array([[1, 2, 3], [4, 5, 6]], dtype=np.float32) * (1 + t.pick(3))
            nodes.append(oh.make_node("Constant", [], [out], value=nph.from_array(arr, name="const_t"), name=self.nname("Constant")))
            return [(out, "F23")]
        if form == 1:
            if self.gen >= 5:
                vf = [0.5, 2.0, -1.0, 0.0, -0.0, 0.0, -0.0][t.pick(7)]
                if vf == 0.0:
                    self.features.add("signed_zero_constant")
            else:
                vf = [0.5, 2.0, -1.0][t.pick(3)]
            nodes.append(oh.make_node("Constant", [], [out], value_float=vf, name=self.nname("Constant")))
            return [(out, "F")]
        if form == 2:
            nodes.append(oh.make_node("Constant", [], [out], value_floats=[1.0, 2.0, float(1 + t.pick(3))], name=self.nname("Constant")))
            return [(out, "F3")]
        if form == 3:
            nodes.append(oh.make_node("Constant", [], [out], value_int=3 + t.pick(2), name=self.nname("Constant")))
            return [(out, "Iscalar")]
        if form == 4:
            nodes.append(oh.make_node("Constant", [], [out], value_ints=[1, 2, 3], name=self.nname("Constant")))
            return [(out, "I3")]
        if form == 5:
            nodes.append(oh.make_node("Constant", [], [out], value_string=["abc", "ünï✓", ""][t.pick(3)], name=self.nname("Constant")))
            self.features.add("string_constant")
            return [(out, "S")]
        if form == 6:
            nodes.append(oh.make_node("Constant", [], [out], value_strings=["a", "é"], name=self.nname("Constant")))
            self.features.add("string_constant")
            return [(out, "S2")]
        arr = np.array([0.25, 0.5, 1.0], dtype=np.float32)
        nodes.append(oh.make_node("Constant", [], [out], value=nph.from_array(arr, name=""), name=self.nname("Constant")))
        return [(out, "F3")]

    def body(self, pool, depth, n_nodes, extra_pool=()):
        """Nodes of a nested graph; `pool` are captured outer values. Returns (nodes, local pool)."""
        nodes = []
        local = list(extra_pool)
        for _ in range(n_nodes):
            produced = self.emit(nodes, list(pool) + local, depth + 1, None)
            local.extend(produced)
        return nodes, local

    def if_node(self, nodes, pool, depth):
        t = self.t
        cond = self.pick_kind(pool, "B")
        if cond is None:
            return []
        out = self.fresh()
        branches = []
        reuse_local = self.gen >= 2 and t.pick(3) == 0
        reuse_tag = self.n
        # version 4: in a third of the If nodes BOTH branches own an initializer of one and the same name
        force_init = self.gen >= 4 and t.pick(3) == 0
        shared_bname = ["bias", "w_sub"][t.pick(2)] if force_init else None
        for br in ("then", "else"):
            binits = []
            if self.gen >= 3 and t.pick(6) == 0:
                # a branch without nodes whose output is its own initializer (nothing consumes that initializer)
                cname = self.fresh("bconst")
                binits.append(nph.from_array(np.array([[1, 0, 2], [0.5, 3, -1]], dtype=np.float32) * (1 + t.pick(2)), name=cname))
                branches.append(oh.make_graph([], f"{br}_{self.n}", [], [vinfo(cname, "F23")], initializer=binits))
                self.features.add("nodeless_branch_returns_initializer")
                continue
            bn, local = self.body(pool, depth, (t.pick(3) if self.gen >= 3 else 1 + t.pick(3)))
            cands = [v for v, k in local if k == "F23"]
            if cands and (t.pick(2) if self.gen >= 3 else t.pick(4)):
                res = cands[t.pick(len(cands))]
            else:
                # branch output produced by an Identity of a captured outer value
                src = self.pick_kind(pool, "F23")
                if self.gen >= 3:
                    # ... preferably one that an outer node computes (its type is not declared anywhere in the proto)
                    computed = [v for v, k in pool if k == "F23" and not v.startswith(("x", "w", "val_w", "bias_"))]
                    if computed and t.pick(3):
                        src = computed[t.pick(len(computed))]
                        self.features.add("identity_of_captured_computed_value")
                res = self.fresh("br")
                bn.append(oh.make_node("Identity", [src], [res], name=self.nname("Identity")))
                self.features.add("identity_of_captured_value")
            if force_init or t.flag("subgraph_initializer", 3):
                # sibling subgraphs use the same initializer name on purpose (they collide when lifted to the main graph)
                bname = shared_bname if force_init else ["bias", "w_sub"][t.pick(2)]
                self.features.add("subgraph_initializer")
                binits.append(nph.from_array(np.array([[0.5, 1, 2], [3, 4, 5]], dtype=np.float32) * (1 + t.pick(2)), name=bname))
                res2 = self.fresh("bi")
                bn.append(oh.make_node("Add", [res, bname], [res2], name=self.nname("Add")))
                res = res2
            if self.gen >= 5 and depth == 0 and self.functions and t.pick(2) == 0:
                # version 5: a value of a branch of a main-graph If carries a name that model-local functions use inside their
                # bodies ("k", "t", "s", "o": separate name spaces, so the model is valid)
                internal = sorted({o for f in self.functions.values() for n in f.node for o in n.output if o and o not in f.output}) or ["k"]
                inner_name = internal[t.pick(len(internal))]
                res5 = self.fresh("fnm")
                bn.append(oh.make_node("Neg", [res], [inner_name], name=self.nname("Neg")))
                bn.append(oh.make_node("Neg", [inner_name], [res5], name=self.nname("Neg")))
                res = res5
                self.features.add("branch_value_named_like_a_function_internal_value")
            if self.gen >= 2 and reuse_local:
                # sibling branches reuse one local value name with different element types (legal: the scopes are disjoint)
                tmp = f"tmp_local_d{depth}_{reuse_tag}"
                res3 = self.fresh("rl")
                if br == "then":
                    bn.append(oh.make_node("Cast", [res], [tmp], to=TP.INT64, name=self.nname("Cast")))
                    bn.append(oh.make_node("Cast", [tmp], [res3], to=TP.FLOAT, name=self.nname("Cast")))
                else:
                    bn.append(oh.make_node("Neg", [res], [tmp], name=self.nname("Neg")))
                    bn.append(oh.make_node("Neg", [tmp], [res3], name=self.nname("Neg")))
                res = res3
                self.features.add("sibling_scopes_reuse_name")
            branches.append(oh.make_graph(bn, f"{br}_{self.n}", [], [vinfo(res, "F23")], initializer=binits))
        nodes.append(oh.make_node("If", [cond], [out], then_branch=branches[0], else_branch=branches[1], name=self.nname("If")))
        self.features.add("control_flow_capture")
        return [(out, "F23")]

    def loop_node(self, nodes, pool, depth):
        t = self.t
        v0 = self.pick_kind(pool, "F23")
        m = self.fresh("trip")
        c = self.fresh("cond")
        nodes.append(oh.make_node("Constant", [], [m], value=nph.from_array(np.array(2, dtype=np.int64), name=""), name=self.nname("Constant")))
        nodes.append(oh.make_node("Constant", [], [c], value=nph.from_array(np.array(True), name=""), name=self.nname("Constant")))
        it, cin, vin = self.fresh("iter"), self.fresh("cin"), self.fresh("vin")
        bn, local = self.body(pool, depth, 1 + t.pick(3), extra_pool=[(vin, "F23")])
        cands = [v for v, k in local if k == "F23" and v != vin]
        if not cands:
            res = self.fresh("lb")
            bn.append(oh.make_node("Add", [vin, self.pick_kind(pool, "F23")], [res], name=self.nname("Add")))
        else:
            res = cands[t.pick(len(cands))]
        cout = self.fresh("cout")
        bn.append(oh.make_node("Identity", [cin], [cout], name=self.nname("Identity")))
        body = oh.make_graph(bn, f"loop_body_{self.n}", [oh.make_tensor_value_info(it, TP.INT64, []), vinfo(cin, "B"), vinfo(vin, "F23")],
                             [vinfo(cout, "B"), vinfo(res, "F23")])
        out = self.fresh()
        nodes.append(oh.make_node("Loop", [m, c, v0], [out], body=body, name=self.nname("Loop")))
        self.features.add("control_flow_capture")
        self.features.add("loop")
        return [(m, "Iscalar_"), (c, "B"), (out, "F23")]

    def make_functions(self):
        t = self.t
        nf = t.pick(4)
        if nf >= 1:
            # f0(x; alpha=1.5) = Mul(x, Constant(value_float=@alpha))
            c = oh.make_node("Constant", [], ["k"], name="fk")
            ra = c.attribute.add()
            ra.name, ra.ref_attr_name, ra.type = "value_float", "alpha", onnx.AttributeProto.FLOAT
            f0 = oh.make_function("local", "f0", ["x"], ["y"], [c, oh.make_node("Mul", ["x", "k"], ["y"], name="fm")],
                                  [oh.make_opsetid("", self.opset)], attribute_protos=[oh.make_attribute("alpha", 1.5)])
            self.functions["f0"] = f0
            self.fn_sigs["f0"] = (1, [("alpha", "f", True)])
        if nf >= 2:
            # f1(x, y; axis required) = Softmax(Add(x, y), axis=@axis)
            s = oh.make_node("Softmax", ["s"], ["o"], name="fs")
            ra = s.attribute.add()
            ra.name, ra.ref_attr_name, ra.type = "axis", "axis", onnx.AttributeProto.INT
            f1 = oh.make_function("local", "f1", ["x", "y"], ["o"], [oh.make_node("Add", ["x", "y"], ["s"], name="fa"), s],
                                  [oh.make_opsetid("", self.opset)], attributes=["axis"])
            self.functions["f1"] = f1
            self.fn_sigs["f1"] = (2, [("axis", "i", False)])
        if nf >= 3:
            # f2(x) = f0(f0(x, alpha=2.0))   nested calls, inner call without the attribute -> default
            inner1 = oh.make_node("f0", ["x"], ["t"], domain="local", alpha=2.0, name="c1")
            inner2 = oh.make_node("f0", ["t"], ["y"], domain="local", name="c2")
            f2 = oh.make_function("local", "f2", ["x"], ["y"], [inner1, inner2], [oh.make_opsetid("", self.opset), oh.make_opsetid("local", 1)])
            self.functions["f2"] = f2
            self.fn_sigs["f2"] = (1, [])
            self.features.add("nested_function")
        if self.functions:
            self.features.add("function")

    def make_functions_v2(self):
        # f3(x) = ai.onnx.ml::Scaler(x): the function body needs a domain the model itself does not import
        if self.t.pick(3) == 0:
            f3 = oh.make_function("local", "f3", ["x"], ["y"], [oh.make_node("Scaler", ["x"], ["y"], domain="ai.onnx.ml", offset=[0.5], scale=[2.0], name="fb")],
                                  [oh.make_opsetid("", self.opset), oh.make_opsetid("ai.onnx.ml", 3)])
            self.functions["f3"] = f3
            self.fn_sigs["f3"] = (1, [])
            self.features.add("function_with_foreign_domain")

    def make_functions_v3(self):
        t = self.t
        if "f0" in self.functions and t.pick(2) == 0:
            # f4(x; scale) = f0(Neg(x), alpha=@scale): the attribute parameter is forwarded under ANOTHER name
            c = oh.make_node("f0", ["t"], ["y"], domain="local", name="c4")
            ra = c.attribute.add()
            ra.name, ra.ref_attr_name, ra.type = "alpha", "scale", onnx.AttributeProto.FLOAT
            f4 = oh.make_function("local", "f4", ["x"], ["y"], [oh.make_node("Neg", ["x"], ["t"], name="n4"), c],
                                  [oh.make_opsetid("", self.opset), oh.make_opsetid("local", 1)], attributes=["scale"])
            self.functions["f4"] = f4
            self.fn_sigs["f4"] = (1, [("scale", "f", False)])
            self.features.add("forwarded_attribute_renamed")
            self.features.add("nested_function")
        if "f1" in self.functions and t.pick(3) == 0:
            # f5(x; axis=0 by default) = Identity(f1(x, x, axis=@axis)): same-named forwarding of a parameter that has a default
            c = oh.make_node("f1", ["x", "x"], ["s"], domain="local", name="c5")
            ra = c.attribute.add()
            ra.name, ra.ref_attr_name, ra.type = "axis", "axis", onnx.AttributeProto.INT
            f5 = oh.make_function("local", "f5", ["x"], ["y"], [c, oh.make_node("Identity", ["s"], ["y"], name="i5")],
                                  [oh.make_opsetid("", self.opset), oh.make_opsetid("local", 1)], attribute_protos=[oh.make_attribute("axis", 0)])
            self.functions["f5"] = f5
            self.fn_sigs["f5"] = (1, [("axis", "i", True)])
            self.features.add("nested_function")

    def make_functions_v4(self):
        t = self.t
        if "f0" in self.functions and t.pick(3) == 0:
            # f6(x, b) = If(b) { f0(x) } else { Neg(x) }: the only call of f0 may sit inside a control-flow body of a function
            then_g = oh.make_graph([oh.make_node("f0", ["x"], ["t6"], domain="local", name="c6")], "f6_then", [], [vinfo("t6", "F23")])
            else_g = oh.make_graph([oh.make_node("Neg", ["x"], ["e6"], name="n6")], "f6_else", [], [vinfo("e6", "F23")])
            f6 = oh.make_function("local", "f6", ["x", "b"], ["y"], [oh.make_node("If", ["b"], ["y"], then_branch=then_g, else_branch=else_g, name="if6")],
                                  [oh.make_opsetid("", self.opset), oh.make_opsetid("local", 1)])
            self.functions["f6"] = f6
            self.fn_sigs["f6"] = (2, [], ["F23", "B"])
            self.features.add("function_body_with_control_flow_call")
            self.features.add("nested_function")

        # f7(x): one name, several bodies - which other function it calls differs from model to model
        cands = [c for c in ("f0", "f1", "f3", "f4") if c in self.functions]
        if cands and t.pick(2) == 0:
            callee = cands[t.pick(len(cands))]
            if callee == "f0":
                body = [oh.make_node("f0", ["x"], ["y"], domain="local", alpha=2.0, name="c7")]
            elif callee == "f1":
                body = [oh.make_node("f1", ["x", "x"], ["y"], domain="local", axis=0, name="c7")]
            elif callee == "f3":
                body = [oh.make_node("f3", ["x"], ["y"], domain="local", name="c7")]
            else:
                body = [oh.make_node("f4", ["x"], ["y"], domain="local", scale=0.5, name="c7")]
            opsets = [oh.make_opsetid("", self.opset), oh.make_opsetid("local", 1)]
            self.functions["f7"] = oh.make_function("local", "f7", ["x"], ["y"], body, opsets)
            self.fn_sigs["f7"] = (1, [])
            self.features.add("function_body_varies_between_models")
            self.features.add("nested_function")

    def make_functions_v5(self):  # FROZEN (as all of generator version 5): registered replays decode with it - new templates go into a new version
        # f8(x) -> (a, b) with a = Relu(x), b = Neg(a): two outputs, the second computed from the first; call sites may omit
        # the first one ("" in the node's output list)
        if self.t.pick(2) == 0:
            self.functions["f8"] = oh.make_function("local", "f8", ["x"], ["a", "b"], [oh.make_node("Relu", ["x"], ["a"], name="f8r"), oh.make_node("Neg", ["a"], ["b"], name="f8n")],
                                                    [oh.make_opsetid("", self.opset)])
            self.fn_sigs["f8"] = (1, [], ["F23"], 2)
            self.features.add("function")
            self.features.add("two_output_function")

    def make_functions_v6(self):
        # f9(x) = Add(x, Constant(value = a [2,3] tensor)): every inlined call site gets a copy of the Constant node
        if self.t.pick(2) == 0:
            kt = nph.from_array(np.array([[1, 2, 3], [4, 5, 6]], dtype=np.float32) * (1 + self.t.pick(2)), name="f9_const")
            self.functions["f9"] = oh.make_function("local", "f9", ["x"], ["y"], [oh.make_node("Constant", [], ["k9"], value=kt, name="f9k"), oh.make_node("Add", ["x", "k9"], ["y"], name="f9a")],
                                                    [oh.make_opsetid("", self.opset)])
            self.fn_sigs["f9"] = (1, [])
            self.features.add("function")
            self.features.add("function_with_tensor_constant")

    def call(self, nodes, pool):
        t = self.t
        names = sorted(self.fn_sigs)
        fn = names[t.pick(len(names))]
        nin, attrs = self.fn_sigs[fn][:2]
        kinds = self.fn_sigs[fn][2] if len(self.fn_sigs[fn]) > 2 else ["F23"] * nin
        ins = [self.pick_kind(pool, k_) for k_ in kinds]
        if any(i is None for i in ins):
            return []
        kw = {}
        for an, ty, has_default in attrs:
            if not has_default or t.pick(2):
                kw[an] = [0.5, 3.0][t.pick(2)] if ty == "f" else [-1, 0][t.pick(2)]
        out = self.fresh()
        if len(self.fn_sigs[fn]) > 3:
            # two outputs: both, or one of them omitted (the trailing one by a shorter list or by "")
            out2 = self.fresh()
            # (a trailing omission is not generated: serialization trims it, and the ONNX checker rejects a call with fewer
            # outputs than the function declares)
            form = t.pick(2)
            outs = [[out, out2], ["", out2]][form]
            nodes.append(oh.make_node(fn, ins, outs, domain="local", name=self.nname(fn), **kw))
            self.features.add("function_call")
            if form:
                self.features.add("call_omits_an_output")
            return [(o, "F23") for o in outs if o]
        nodes.append(oh.make_node(fn, ins, [out], domain="local", name=self.nname(fn), **kw))
        self.features.add("function_call")
        return [(out, "F23")]

    def model(self):
        t = self.t
        self.make_functions()
        if self.gen >= 2:
            self.make_functions_v2()
        if self.gen >= 3:
            self.make_functions_v3()
        if self.gen >= 4:
            self.make_functions_v4()
        if self.gen >= 5:
            self.make_functions_v5()
        if self.gen >= 6:
            self.make_functions_v6()
        inputs = [vinfo("x0", "F23"), vinfo("x1", "F23"), vinfo("cnd", "B")]
        pool = [("x0", "F23"), ("x1", "F23"), ("cnd", "B")]
        inits = []
        base = [np.array([[1, -2, 3], [0.5, 0, -1]], dtype=np.float32), np.array([1.0, 2.0, 0.5], dtype=np.float32),
                np.array([0.1, 0.2, 0.3], dtype=np.float32), np.array(1.5, dtype=np.float32), np.array([1.0, 2.0, 3.0], dtype=np.float32)]
        for i in range(2 + t.pick(5)):
            arr = base[t.pick(len(base))]  # few distinct payloads -> duplicate initializers are common
            if self.gen >= 4:
                # version 4: main-graph names that look like what a pass generates when it has to rename a lifted
                # subgraph initializer ("bias" -> "bias_1")
                name = ["w", "w_1", f"w{i}", f"val_w{i}", "bias_1", "w_sub_1"][t.pick(6)]
            else:
                name = ["w", "w_1", f"w{i}", f"val_w{i}"][t.pick(4)]
            if any(name == x.name for x in inits):
                name = f"w{i}_{self.n}"
            inits.append(nph.from_array(arr, name=name))
            kind = {(2, 3): "F23", (3,): "F3", (): "F"}[arr.shape]
            pool.append((name, kind))
            if t.flag("initializer_in_inputs", 6):
                inputs.append(vinfo(name, kind))
        if len({(tuple(x.dims), x.raw_data) for x in inits}) < len(inits):
            self.features.add("duplicate_initializer")
        nodes = []
        for _ in range(3 + t.pick(9)):
            pool.extend(self.emit(nodes, pool, 0, None))
        if self.gen >= 4:
            # version 4: functions nobody calls yet get a call half of the time (models in which every function is in
            # use, and models in which a function is reachable only through another function, become common)
            called = {n.op_type for n in nodes if n.domain == "local"}
            for fn in sorted(self.fn_sigs):
                if fn not in called and t.pick(2) == 0:
                    nin, attrs = self.fn_sigs[fn][:2]
                    kinds = self.fn_sigs[fn][2] if len(self.fn_sigs[fn]) > 2 else ["F23"] * nin
                    ins = [self.pick_kind(pool, k_) for k_ in kinds]
                    if any(i is None for i in ins):
                        continue
                    kw = {an: ([0.5, 3.0][t.pick(2)] if ty == "f" else [-1, 0][t.pick(2)]) for an, ty, has_default in attrs if not has_default}
                    out = self.fresh()
                    nodes.append(oh.make_node(fn, ins, ["", out] if len(self.fn_sigs[fn]) > 3 else [out], domain="local", name=self.nname(fn), **kw))
                    pool.append((out, "F23"))
                    self.features.add("function_call")
        # outputs
        outs = []
        cands = [(v, k) for v, k in pool if k in ("F23", "B23", "I23", "F3", "S", "F43") and not v.startswith(("x", "w", "val_w"))]
        produced = {o for n in nodes for o in n.output}
        cands = [(v, k) for v, k in cands if v in produced]
        for _ in range(1 + t.pick(3)):
            if not cands:
                break
            v, k = cands.pop(t.pick(len(cands)))
            if k == "S":
                outs.append(oh.make_tensor_value_info(v, TP.STRING, []))
            else:
                outs.append(vinfo(v, k))
        if t.flag("output_aliases_input", 6):
            outs.append(vinfo("x1", "F23"))
        if self.gen >= 4 and outs and t.flag("output_listed_twice", 5):
            # the same value listed twice among the graph outputs (accepted by the checker)
            dup = onnx.ValueInfoProto()
            dup.CopyFrom(outs[t.pick(len(outs))])
            outs.append(dup)
        if t.flag("identity_input_to_output", 5):
            nodes.append(oh.make_node("Identity", [["x0", "x1"][t.pick(2)]], ["id_out"], name=self.nname("Identity")))
            outs.append(vinfo("id_out", "F23"))
        # make most computed values observable: sum up F23 values nobody consumes (a few stay unused on purpose)
        consumed = {i for n in nodes for i in n.input} | {o.name for o in outs}
        for n in nodes:
            for a in n.attribute:
                for gsub in ([a.g] if a.HasField("g") else []) + list(a.graphs):
                    consumed |= {i for m in gsub.node for i in m.input}
        loose = [v for v, k in pool if k == "F23" and v in produced and v not in consumed]
        loose = [v for j, v in enumerate(loose) if (j + len(nodes)) % 4 != 3]
        if len(loose) >= 2:
            nodes.append(oh.make_node("Sum", loose, ["total"], name=self.nname("Sum")))
            outs.append(vinfo("total", "F23"))
        if not outs:
            nodes.append(oh.make_node("Identity", ["x0"], ["only_out"], name="last"))
            outs.append(vinfo("only_out", "F23"))
        g = oh.make_graph(nodes, "main", inputs, outs, initializer=inits + self.extra_inits)
        opsets = [oh.make_opsetid("", self.opset)]
        if self.functions:
            opsets.append(oh.make_opsetid("local", 1))
        if t.flag("unused_opset", 5):
            opsets.append(oh.make_opsetid("unused.domain", 1))
        m = oh.make_model(g, opset_imports=opsets, functions=list(self.functions.values()), ir_version=10)
        return m


def build(ints, gen=1):
    tape = Tape(ints)
    g = RGen(tape, gen)
    m = g.model()
    if g.opset != OPSET:
        g.features.add(f"opset{g.opset}")
    return m, g.features


def tape_strategy(max_len=260):
    from hypothesis import strategies as st

    return st.sampled_from([40, 100, max_len]).flatmap(lambda n: st.lists(st.integers(0, 2**16), min_size=n // 2, max_size=n))

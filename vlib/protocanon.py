"""Proto canonicaliser implementing ONLY the normalisations the C02 statement allows, and a path differ.

Written from the statement, not from onnx_ir.testing:
  1. node domain 'ai.onnx' == ''
  2. order of opset_import / value_info / metadata_props (and other string-string maps keyed by 'key',
     quantization annotations keyed by tensor name) is not information
  3. value_info ADDED for initializers is ignored; ORIGINAL value_info naming nothing in its graph is ignored
  4. trailing unnamed node outputs are trimmed
  5. an optional scalar that is set to its default value == unset (never applied to oneof members);
     an empty ValueInfoProto.type message == absent
"""

from __future__ import annotations

import onnx
from google.protobuf import descriptor as _d

FD = _d.FieldDescriptor


def _is_repeated(f):
    try:
        return f.is_repeated
    except AttributeError:
        return f.label == FD.LABEL_REPEATED


def _clear_default_scalars(msg):
    for f in msg.DESCRIPTOR.fields:
        if _is_repeated(f):
            if f.type == FD.TYPE_MESSAGE:
                for sub in getattr(msg, f.name):
                    _clear_default_scalars(sub)
            continue
        if f.type == FD.TYPE_MESSAGE:
            if msg.HasField(f.name):
                _clear_default_scalars(getattr(msg, f.name))
            continue
        if f.containing_oneof is not None:
            continue
        try:
            present = msg.HasField(f.name)
        except ValueError:
            continue
        if present and getattr(msg, f.name) == f.default_value:
            msg.ClearField(f.name)


def _sort_maps(msg):
    """Sort every repeated StringStringEntryProto / OperatorSetIdProto field, recursively."""
    for f in msg.DESCRIPTOR.fields:
        if f.type != FD.TYPE_MESSAGE:
            continue
        if _is_repeated(f):
            items = list(getattr(msg, f.name))
            for sub in items:
                _sort_maps(sub)
            name = f.message_type.name
            key = None
            if name == "StringStringEntryProto":
                key = lambda e: (e.key, e.value)
            elif name == "OperatorSetIdProto":
                key = lambda e: (e.domain, e.version)
            elif name == "ValueInfoProto" and f.name == "value_info":
                key = lambda e: e.name
            elif name == "TensorAnnotation":
                key = lambda e: e.tensor_name
            if key is not None and f.name != "external_data":
                srt = sorted(items, key=key)
                copies = [type(x)() for x in srt]
                for c, x in zip(copies, srt):
                    c.CopyFrom(x)
                del getattr(msg, f.name)[:]
                getattr(msg, f.name).extend(copies)
        elif msg.HasField(f.name):
            _sort_maps(getattr(msg, f.name))


def _walk_graphs(msg, fn):
    """Apply fn to every GraphProto reachable from msg (graphs, function bodies are handled separately)."""
    if isinstance(msg, onnx.GraphProto):
        fn(msg)
        for n in msg.node:
            _walk_nodes(n, fn)
    elif isinstance(msg, onnx.ModelProto):
        _walk_graphs(msg.graph, fn)
        for f in msg.functions:
            for n in f.node:
                _walk_nodes(n, fn)
    elif isinstance(msg, onnx.FunctionProto):
        for n in msg.node:
            _walk_nodes(n, fn)
    elif isinstance(msg, onnx.NodeProto):
        _walk_nodes(msg, fn)
    elif isinstance(msg, onnx.AttributeProto):
        if msg.HasField("g") and msg.g.ByteSize() > 0:
            _walk_graphs(msg.g, fn)
        for g in msg.graphs:
            _walk_graphs(g, fn)


def _walk_nodes(node, fn):
    for a in node.attribute:
        if a.HasField("g") and a.g.ByteSize() > 0:
            _walk_graphs(a.g, fn)
        for g in a.graphs:
            _walk_graphs(g, fn)


def _all_nodes(msg, out):
    if isinstance(msg, onnx.ModelProto):
        _all_nodes(msg.graph, out)
        for f in msg.functions:
            _all_nodes(f, out)
    elif isinstance(msg, (onnx.GraphProto, onnx.FunctionProto)):
        for n in msg.node:
            _all_nodes(n, out)
    elif isinstance(msg, onnx.NodeProto):
        out.append(msg)
        for a in msg.attribute:
            _all_nodes(a, out)
    elif isinstance(msg, onnx.AttributeProto):
        if msg.HasField("g"):
            _all_nodes(msg.g, out)
        for g in msg.graphs:
            _all_nodes(g, out)


def canon(msg, original=None):
    """Return a canonical copy.  `original` (the pre-round-trip proto) is needed for rule 3 when
    canonicalising the round-tripped proto; pass None when canonicalising the original itself."""
    m = type(msg)()
    m.CopyFrom(msg)
    nodes = []
    _all_nodes(m, nodes)
    for n in nodes:
        if n.domain == "ai.onnx":
            n.domain = ""
        outs = list(n.output)
        while outs and outs[-1] == "":
            outs.pop()
        if len(outs) != len(n.output):
            del n.output[:]
            n.output.extend(outs)
    # rule 3
    if original is None:

        # Below IR version 10 the type information of function values is kept in the main graph's value_info under
        # "{domain}::{function}/{value}": such an entry names a value of a model-local function and is referenced
        fn_value_names = set()
        if isinstance(m, onnx.ModelProto) and m.ir_version < 10:
            for f in m.functions:
                inner = []
                _all_nodes(f, inner)
                for v in list(f.input) + [o for n in inner for o in n.output if o]:
                    fn_value_names.add(f"{f.domain}::{f.name}/{v}")

        def drop_unreferenced(g):
            names = {i.name for i in g.input} | {t.name for t in g.initializer} | {o for n in g.node for o in n.output}
            if isinstance(m, onnx.ModelProto) and g is m.graph:
                names |= fn_value_names
            keep = [v for v in g.value_info if v.name in names]
            if len(keep) != len(g.value_info):
                cp = [onnx.ValueInfoProto() for _ in keep]
                for c, x in zip(cp, keep):
                    c.CopyFrom(x)
                del g.value_info[:]
                g.value_info.extend(cp)

        _walk_graphs(m, drop_unreferenced)
    else:
        # value names are unique across the model (SSA incl. nested scopes), so "did the original
        # carry value_info for this initializer" can be decided on names alone
        had = set()
        _walk_graphs(original, lambda og: had.update(v.name for v in og.value_info))

        def drop_added(ng):
            inits = {t.name for t in ng.initializer}
            keep = [v for v in ng.value_info if not (v.name in inits and v.name not in had)]
            if len(keep) != len(ng.value_info):
                cp = [onnx.ValueInfoProto() for _ in keep]
                for c, x in zip(cp, keep):
                    c.CopyFrom(x)
                del ng.value_info[:]
                ng.value_info.extend(cp)

        _walk_graphs(m, drop_added)
    _clear_default_scalars(m)
    _clear_empty_types(m)
    _sort_maps(m)
    return m


def _clear_empty_types(msg):
    for f in msg.DESCRIPTOR.fields:
        if f.type != FD.TYPE_MESSAGE:
            continue
        if _is_repeated(f):
            for sub in getattr(msg, f.name):
                _clear_empty_types(sub)
        elif msg.HasField(f.name):
            sub = getattr(msg, f.name)
            _clear_empty_types(sub)
            if sub.ByteSize() == 0 and (
                (isinstance(msg, onnx.ValueInfoProto) and f.name == "type")
                or (isinstance(msg, onnx.AttributeProto) and f.name == "g")
            ):
                # an empty message here carries no information (unlike an empty `shape`, which means rank 0)
                msg.ClearField(f.name)


def equal(a, b):
    return a.SerializeToString(deterministic=True) == b.SerializeToString(deterministic=True)


def first_diff(a, b, path=""):
    """(bucket-id, human text) of the first difference between two messages of one type.

    bucket-id = '<message type>.<field>[#count|#presence]' of the innermost differing field, so that one
    root cause gives one bucket wherever the message is nested; the text carries the full path."""
    T = a.DESCRIPTOR.name
    for f in a.DESCRIPTOR.fields:
        p = f"{path}.{f.name}" if path else f.name
        if _is_repeated(f):
            la, lb = list(getattr(a, f.name)), list(getattr(b, f.name))
            if f.type == FD.TYPE_MESSAGE:
                for i, (x, y) in enumerate(zip(la, lb)):
                    d = first_diff(x, y, p)
                    if d:
                        return d
                if len(la) != len(lb):
                    extra = la[len(lb):] or lb[len(la):]
                    return f"{T}.{f.name}#count", f"{p}: {len(la)} entries originally, {len(lb)} after round trip; first unmatched: {str(extra[0])[:160]!r}"
            elif la != lb:
                return f"{T}.{f.name}", f"{p}: {la[:6]!r} -> {lb[:6]!r}"
            continue
        if f.type == FD.TYPE_MESSAGE:
            ha, hb = a.HasField(f.name), b.HasField(f.name)
            if ha != hb:
                return f"{T}.{f.name}#presence", f"{p}: present {ha} -> {hb} ({str(getattr(a if ha else b, f.name))[:120]!r})"
            if ha:
                d = first_diff(getattr(a, f.name), getattr(b, f.name), p)
                if d:
                    return d
            continue
        va, vb = getattr(a, f.name), getattr(b, f.name)
        try:
            ha, hb = a.HasField(f.name), b.HasField(f.name)
        except ValueError:
            ha = hb = True
        if ha != hb or (va != vb and not (va != va and vb != vb)):
            return f"{T}.{f.name}", f"{p}: {va!r} (set={ha}) -> {vb!r} (set={hb})"
    return None

"""Entry point: python -m vlib.main <ID> --tier quick|thorough [--replay FILE]"""
import argparse
import glob
import os
import sys

from vlib import runner


def main():
    for stream in (sys.stdout, sys.stderr):  # generated names may hold characters that cannot be encoded (lone surrogates)
        try:
            stream.reconfigure(errors="backslashreplace")
        except Exception:
            pass
    ap = argparse.ArgumentParser()
    ap.add_argument("prop")
    ap.add_argument("--tier", default=os.environ.get("VERIF_TIER", "quick"), choices=["quick", "thorough"])
    ap.add_argument("--replay", default=None)
    a = ap.parse_args()
    pid = a.prop.upper()
    cands = glob.glob(os.path.join(runner.VERIF, "props", pid.lower() + "*.py"))
    if not cands:
        print(f"HARNESS-ERROR: no property module for {pid}")
        return 2
    mod_name = "props." + os.path.basename(cands[0])[:-3]
    try:
        seed = int(os.environ.get("VERIF_SEED", "1"))
    except ValueError:
        seed = 1
    try:
        return runner.main_run(mod_name, a.tier, seed, a.replay)
    except SystemExit:
        raise
    except Exception:
        import traceback

        traceback.print_exc()
        print("HARNESS-ERROR: runner crashed")
        return 2


if __name__ == "__main__":
    sys.exit(main())

"""Generic structural shrinker for JSON-able cases (ddmin on every list, then scalars).

Every case format used by the property modules decodes indices modulo the current pool
size, so deleting list elements or lowering integers always yields an executable case.
`pred(case)` must return True iff the candidate still reproduces the bucket; any
exception inside it counts as "does not reproduce".
"""

from __future__ import annotations

import copy
import time


def _paths(obj, prefix=()):
    """Yield paths to every list / dict / scalar in obj."""
    yield prefix, obj
    if isinstance(obj, list):
        for i, x in enumerate(obj):
            yield from _paths(x, prefix + (i,))
    elif isinstance(obj, dict):
        for k in sorted(obj):
            yield from _paths(obj[k], prefix + (k,))


def _get(obj, path):
    for p in path:
        obj = obj[p]
    return obj


def _set(obj, path, val):
    if not path:
        return val
    obj = copy.deepcopy(obj)
    cur = obj
    for p in path[:-1]:
        cur = cur[p]
    cur[path[-1]] = val
    return obj


def shrink(case, pred, time_cap=60.0):
    t_end = time.time() + time_cap
    case = copy.deepcopy(_tolists(case))

    def ok(c):
        if time.time() > t_end:
            return False
        try:
            return bool(pred(c))
        except Exception:
            return False

    improved = True
    while improved and time.time() < t_end:
        improved = False
        # 1. list deletions (ddmin-like), longest lists first
        list_paths = [p for p, o in _paths(case) if isinstance(o, list) and len(o) > 0]
        list_paths.sort(key=lambda p: -len(_get(case, p)))
        for p in list_paths:
            try:
                lst = _get(case, p)
            except (KeyError, IndexError, TypeError):
                continue
            if not isinstance(lst, list):
                continue
            n = len(lst)
            chunk = n
            while chunk >= 1 and time.time() < t_end:
                i = 0
                changed = False
                while i < len(lst):
                    cand_l = lst[:i] + lst[i + chunk :]
                    cand = _set(case, p, cand_l)
                    if len(cand_l) < len(lst) and ok(cand):
                        case = cand
                        lst = cand_l
                        improved = True
                        changed = True
                    else:
                        i += chunk
                if not changed:
                    chunk //= 2
                else:
                    chunk = min(chunk, max(1, len(lst)))
                    if chunk == 0:
                        break
        # 2. scalar simplification
        for p, o in list(_paths(case)):
            if time.time() > t_end:
                break
            try:
                cur = _get(case, p)
            except (KeyError, IndexError, TypeError):
                continue
            cands = []
            if isinstance(cur, bool):
                if cur:
                    cands = [False]
            elif isinstance(cur, int):
                if cur != 0:
                    cands = [0]
                    if abs(cur) > 1:
                        cands += [cur // 2, cur - 1 if cur > 0 else cur + 1]
            elif isinstance(cur, str):
                if len(cur) > 1:
                    cands = [cur[:1], cur[: len(cur) // 2]]
            for cv in cands:
                cand = _set(case, p, cv)
                if ok(cand):
                    case = cand
                    improved = True
                    break
    return case


def _tolists(o):
    if isinstance(o, (list, tuple)):
        return [_tolists(x) for x in o]
    if isinstance(o, dict):
        return {k: _tolists(v) for k, v in o.items()}
    return o

"""IR universe, edit alphabet (script interpreter), for history properties (C01/C06/C13/C20...).

A *script* is a list of ops; each op is a list [opname, arg, arg, ...] of plain ints /
bools / lists of ints.  Object arguments are indices reduced modulo the size of the
relevant pool at interpretation time, so every script is executable.
"""

from __future__ import annotations

import numpy as np

import onnx_ir as ir
from onnx_ir import convenience as ir_conv

# the last name is a legal Python str that protobuf cannot encode: objects that keep their name in a proto reject it
NAMES = [None, "", "a", "b", "w", "w_1", "val_0", "val_1", "val_2", "node_Add_0", "x", "y", "w_\ud800", "\udcff"]
OPS = ["Add", "Mul", "Relu", "Identity", "If"]


class Universe:
    """All IR objects ever created in one case, numbered by creation order."""

    def __init__(self, setup: int = 1, safe: bool = False):
        # safe=True: op variants named by known findings are replaced by their valid-argument
        # form (exclusion by construction), so that long histories survive.
        self.safe = safe
        self.handles = []  # Graph or Function (editing handles)
        self.graphs = []  # every Graph object (incl. function bodies)
        self.nodes = []
        self.values = []
        self.tensors = []
        self._ids = {}
        self._build(setup)
        self.sweep()

    @classmethod
    def from_model(cls, model=None, graphs=(), functions=()):
        """Universe over existing IR objects (no construction): everything reachable from a model."""
        u = cls.__new__(cls)
        u.safe = False
        u.handles, u.graphs, u.nodes, u.values, u.tensors, u._ids = [], [], [], [], [], {}
        gs = list(graphs)
        fs = list(functions)
        if model is not None:
            gs.append(model.graph)
            fs.extend(model.functions.values())
        for g in gs:
            u.reg_graph(g)
            u.handles.append(g)
        for f in fs:
            u.reg_graph(f.graph)
            u.handles.append(f)
        u.function = fs[0] if fs else None
        u.sweep()
        return u

    # -- registration -------------------------------------------------------------
    def _reg(self, pool, kind, obj):
        key = id(obj)
        if key in self._ids:
            return
        self._ids[key] = (kind, len(pool))
        pool.append(obj)

    def reg_value(self, v):
        if v is not None:
            self._reg(self.values, "v", v)

    def reg_node(self, n):
        if id(n) in self._ids:
            return
        try:  # a Node whose constructor raised half-way is not a usable object
            n.doc_string, n.inputs, n.outputs, n.attributes
        except AttributeError:
            return
        self._reg(self.nodes, "n", n)

    def reg_graph(self, g):
        if id(g) in self._ids:
            return
        try:  # a Graph whose constructor raised half-way is not a usable object
            g.inputs, g.outputs, g.initializers, len(g)
        except AttributeError:
            return
        self._reg(self.graphs, "g", g)

    def reg_tensor(self, t):
        if t is not None:
            self._reg(self.tensors, "t", t)

    def idx(self, obj):
        if obj is None:
            return None
        r = self._ids.get(id(obj))
        if r is None:
            return ("?", type(obj).__name__)
        return r

    def sweep(self):
        """Register every object reachable through public accessors."""
        changed = True
        while changed:
            n0 = len(self._ids)
            for g in list(self.graphs):
                for v in list(g.inputs):
                    self.reg_value(v)
                for v in list(g.outputs):
                    self.reg_value(v)
                for v in list(g.initializers.values()):
                    self.reg_value(v)
                for n in list(g):
                    self.reg_node(n)
            for n in list(self.nodes):
                for v in n.inputs:
                    self.reg_value(v)
                for v in n.outputs:
                    self.reg_value(v)
                for a in n.attributes.values():
                    if a.type == ir.AttributeType.GRAPH and not a.is_ref():
                        self.reg_graph(a.value)
                    elif a.type == ir.AttributeType.GRAPHS and not a.is_ref():
                        for g in a.value:
                            self.reg_graph(g)
                if n.graph is not None:
                    self.reg_graph(n.graph)
            for v in list(self.values):
                p = v.producer()
                if p is not None:
                    self.reg_node(p)
                for un, _ in v.uses():
                    self.reg_node(un)
                if v.const_value is not None:
                    self.reg_tensor(v.const_value)
                if v.graph is not None:
                    self.reg_graph(v.graph)
            changed = len(self._ids) != n0

    # -- construction -------------------------------------------------------------
    def tensor(self, k=0):
        if k % 3 != 0:
            # a tensor that lives in a TensorProto (what every deserialized model holds): its name setter goes through
            # protobuf and can therefore raise
            import onnx
            from onnx_ir import serde

            t = serde.TensorProtoTensor(onnx.TensorProto(data_type=1, dims=[2], float_data=[float(k), 1.0], name="pt"))
        else:
            t = ir.Tensor(np.array([float(k), 1.0], dtype=np.float32))
        self.reg_tensor(t)
        return t

    def _build(self, setup):
        a = ir.Value(name="a", type=ir.TensorType(ir.DataType.FLOAT), shape=ir.Shape([2]))
        b = ir.Value(name="b", type=ir.TensorType(ir.DataType.FLOAT), shape=ir.Shape([2]))
        w = ir.Value(name="w", const_value=self.tensor(0))
        free = ir.Value(name=None)
        free2 = ir.Value(name="x", const_value=self.tensor(5))
        for v in (a, b, w, free, free2):
            self.reg_value(v)
        if setup % 2 == 0:
            g0 = ir.Graph([a, b], [], nodes=[], initializers=[w], name="g0", opset_imports={"": 20})
            g1 = ir.Graph([], [], nodes=[], name="g1")
            g2 = ir.Graph([], [], nodes=[], name="g2", opset_imports={"": 20})
            holder = ir.Node("", "If", [a], [ir.AttrGraph("then_branch", g1)], num_outputs=1, graph=g0)
            self.reg_node(holder)
        else:
            n0 = ir.Node("", "Add", [a, b], num_outputs=1, name="n0")
            g1w = ir.Value(name="w", const_value=self.tensor(1))
            m0 = ir.Node("", "Mul", [n0.outputs[0], g1w], num_outputs=1)
            g1 = ir.Graph([], [m0.outputs[0]], nodes=[m0], initializers=[g1w], name="g1")
            n1 = ir.Node("", "If", [n0.outputs[0]], [ir.AttrGraph("then_branch", g1)], num_outputs=2)
            n2 = ir.Node("", "Mul", [n1.outputs[0], w], num_outputs=1)
            g0 = ir.Graph(
                [a, b], [n2.outputs[0]], nodes=[n0, n1, n2], initializers=[w], name="g0",
                opset_imports={"": 20},
            )
            fa = ir.Value(name="a")
            f0 = ir.Node("", "Relu", [fa], num_outputs=1)
            g2 = ir.Graph([fa], [f0.outputs[0]], nodes=[f0], name="g2", opset_imports={"": 20})
            for n in (n0, m0, n1, n2, f0):
                self.reg_node(n)
        fn = ir.Function("dom", "f", graph=g2, attributes=[])
        for g in (g0, g1, g2):
            self.reg_graph(g)
        self.handles = [g0, g1, fn]
        self.function = fn

    # -- decoding helpers ---------------------------------------------------------
    def H(self, i):
        return self.handles[i % len(self.handles)]

    def G(self, i):
        h = self.H(i)
        return h.graph if isinstance(h, ir.Function) else h

    def N(self, i):
        if not self.nodes:
            raise Malformed("no nodes")
        return self.nodes[i % len(self.nodes)]

    def V(self, i):
        return self.values[i % len(self.values)]

    def VN(self, i):
        # one extra slot for None
        k = i % (len(self.values) + 1)
        return None if k == len(self.values) else self.values[k]

    def NL(self, lst):
        return [self.N(i) for i in lst]

    def VL(self, lst):
        return [self.V(i) for i in lst]

    def NAME(self, i):
        return NAMES[i % len(NAMES)]

    def KEY(self, g, i):
        keys = list(g.initializers.keys()) + [n for n in NAMES if n is not None]
        return keys[i % len(keys)]

    def IO(self, h, which):
        return h.inputs if which % 2 == 0 else h.outputs

    def spell(self, items):
        """The same elements under another spelling of "iterable" (the signatures take Iterable): list, tuple, generator,
        one-shot iterator - chosen by a counter, so that a history always spells its arguments the same way."""
        self._spell = getattr(self, "_spell", 0) + 1
        k = (self._spell + len(items)) % 4
        if k == 0:
            return list(items)
        if k == 1:
            return tuple(items)
        if k == 2:
            return (x for x in list(items))
        return iter(list(items))


class Malformed(Exception):
    pass


# ---------------------------------------------------------------------------------
# Edit alphabet.  Each entry: name -> (argspec, fn(u, *args)).
# argspec letters: h handle, n node, v value, V value-or-None, i small int, b bool,
# s name index, N node list, L value list, W value-or-None list, k key index, c coll(0/1)
# ---------------------------------------------------------------------------------
ALPHABET = {}


def op(name, spec):
    def deco(fn):
        ALPHABET[name] = (spec, fn)
        return fn

    return deco


@op("new_value", "sb")
def _new_value(u, s, with_const):
    v = ir.Value(name=u.NAME(s), const_value=u.tensor(s) if with_const else None)
    u.reg_value(v)
    return v


@op("new_node", "iWish")
def _new_node(u, opi, ins, nout, s, h):
    graph = None if h % 4 == 3 else u.H(h)
    n = ir.Node(
        "", OPS[opi % len(OPS)], u.spell([u.VN(i) for i in ins[:3]]), num_outputs=nout % 4, name=u.NAME(s), graph=graph
    )
    u.reg_node(n)
    return n


@op("new_node_outs", "iWLh")
def _new_node_outs(u, opi, ins, outs, h):
    graph = None if h % 4 == 3 else u.H(h)
    outs = u.VL(outs[:3])
    if u.safe:  # known finding: a graph input/initializer is accepted as node output
        outs = [v for v in outs if not (v.is_graph_input() or v.is_initializer())]
    n = ir.Node("", OPS[opi % len(OPS)], u.spell([u.VN(i) for i in ins[:3]]), outputs=outs, graph=graph)
    u.reg_node(n)
    return n


@op("new_graph", "LLNL")
def _new_graph(u, ins, outs, nodes, inits):
    g = ir.Graph(u.VL(ins[:2]), u.VL(outs[:2]), nodes=u.NL(nodes[:2]) if u.nodes else [], initializers=u.VL(inits[:2]), name="gx")
    u.reg_graph(g)
    u.handles.append(g)
    return g


@op("g_append", "hn")
def _g_append(u, h, n):
    u.H(h).append(u.N(n))


@op("g_extend", "hN")
def _g_extend(u, h, ns):
    u.H(h).extend(u.spell(u.NL(ns)))


@op("g_insert_before", "hnNb")
def _g_insert_before(u, h, n, ns, single):
    arg = u.NL(ns)
    u.H(h).insert_before(u.N(n), arg[0] if single and arg else u.spell(arg))


@op("g_insert_after", "hnNb")
def _g_insert_after(u, h, n, ns, single):
    arg = u.NL(ns)
    u.H(h).insert_after(u.N(n), arg[0] if single and arg else u.spell(arg))


@op("g_remove", "hNbb")
def _g_remove(u, h, ns, single, safe):
    arg = u.NL(ns)
    u.H(h).remove(arg[0] if single and arg else u.spell(arg), safe=safe)


@op("g_move", "hn")
def _g_move(u, h, n):
    """Two public calls: remove the node from the graph it is in, append it to another one."""
    node = u.N(n)
    if node.graph is not None:
        node.graph.remove(node)
    u.H(h).append(node)


@op("g_sort", "h")
def _g_sort(u, h):
    u.H(h).sort()


@op("n_prepend", "nNb")
def _n_prepend(u, n, ns, single):
    arg = u.NL(ns)
    u.N(n).prepend(arg[0] if single and arg else u.spell(arg))


@op("n_append", "nNb")
def _n_append(u, n, ns, single):
    arg = u.NL(ns)
    u.N(n).append(arg[0] if single and arg else u.spell(arg))


@op("n_replace_input", "niV")
def _n_replace_input(u, n, i, v):
    node = u.N(n)
    # index in [-1, len] so that both out-of-range sides occur
    idx = (i % (len(node.inputs) + 2)) - 1
    node.replace_input_with(idx, u.VN(v))


@op("n_resize_inputs", "ni")
def _n_resize_inputs(u, n, i):
    u.N(n).resize_inputs(i % 5)


@op("n_resize_outputs", "ni")
def _n_resize_outputs(u, n, i):
    u.N(n).resize_outputs(i % 5)


@op("v_rauw", "vvb")
def _v_rauw(u, v, r, rgo):
    u.V(v).replace_all_uses_with(u.V(r), replace_graph_outputs=rgo)


@op("conv_rauw", "LLb")
def _conv_rauw(u, vs, rs, rgo):
    ir_conv.replace_all_uses_with(u.VL(vs[:3]), u.VL(rs[:3]), replace_graph_outputs=rgo)


@op("conv_rename", "LS")
def _conv_rename(u, vs, names):
    vals = u.VL(vs[:4])
    nm = [u.NAME(s) if u.NAME(s) is not None else "z" for s in names[:4]]
    if nm and len(nm) != len(vals) and sum(names) % 4 != 0:
        nm = [nm[j % len(nm)] for j in range(len(vals))]
    ir_conv.rename_values(vals, nm)


@op("io_append", "hcv")
def _io_append(u, h, c, v):
    u.IO(u.H(h), c).append(u.V(v))


@op("io_extend", "hcL")
def _io_extend(u, h, c, vs):
    u.IO(u.H(h), c).extend(u.spell(u.VL(vs)))


@op("io_insert", "hciv")
def _io_insert(u, h, c, i, v):
    coll = u.IO(u.H(h), c)
    coll.insert((i % (len(coll) + 3)) - 1, u.V(v))


@op("io_pop", "hci")
def _io_pop(u, h, c, i):
    coll = u.IO(u.H(h), c)
    return coll.pop((i % (len(coll) + 3)) - 1 - len(coll) % 2)


@op("io_remove", "hcv")
def _io_remove(u, h, c, v):
    u.IO(u.H(h), c).remove(u.V(v))


@op("io_clear", "hc")
def _io_clear(u, h, c):
    u.IO(u.H(h), c).clear()


@op("io_setitem", "hciv")
def _io_setitem(u, h, c, i, v):
    coll = u.IO(u.H(h), c)
    coll[(i % (len(coll) + 2)) - 1] = u.V(v)


@op("io_setslice", "hciiL")
def _io_setslice(u, h, c, i, j, vs):
    coll = u.IO(u.H(h), c)
    coll[i % (len(coll) + 1) : j % (len(coll) + 2)] = u.spell(u.VL(vs))


@op("io_delitem", "hci")
def _io_delitem(u, h, c, i):
    coll = u.IO(u.H(h), c)
    del coll[(i % (len(coll) + 2)) - 1]


@op("io_delslice", "hcii")
def _io_delslice(u, h, c, i, j):
    coll = u.IO(u.H(h), c)
    del coll[i % (len(coll) + 1) : j % (len(coll) + 2)]


@op("io_reverse", "hc")
def _io_reverse(u, h, c):
    u.IO(u.H(h), c).reverse()


@op("io_copy_edit", "hci")
def _io_copy_edit(u, h, c, i):
    """A copy of the input/output list is the caller's own: editing it must leave the graph alone."""
    import copy

    coll = u.IO(u.H(h), c)
    cp = [coll.copy, lambda: copy.copy(coll), lambda: coll[:], lambda: list(coll)][i % 4]()
    if len(cp):
        if i % 3 == 0:
            cp.clear()
        elif i % 3 == 1:
            cp.pop()
        else:
            cp.remove(cp[0])


@op("init_copy_edit", "hi")
def _init_copy_edit(u, h, i):
    """A copy of the initializer mapping is the caller's own: editing it must leave the graph alone."""
    import copy

    g = u.G(h)
    cp = [g.initializers.copy, lambda: copy.copy(g.initializers), lambda: dict(g.initializers)][i % 3]()
    if len(cp):
        if i % 4 == 0:
            cp.clear()
        elif i % 4 == 1:
            cp.pop(next(iter(cp)))
        elif i % 4 == 2:
            cp.popitem()
        else:
            del cp[next(iter(cp))]


@op("io_imul", "hci")
def _io_imul(u, h, c, k):
    coll = u.IO(u.H(h), c)
    coll *= k % 3


@op("io_iadd", "hcL")
def _io_iadd(u, h, c, vs):
    coll = u.IO(u.H(h), c)
    coll += u.VL(vs)


@op("init_setitem", "hkv")
def _init_setitem(u, h, k, v):
    g = u.G(h)
    val = u.V(v)
    # half of the time use the value's own name as key (the documented usage)
    key = val.name if (k % 2 == 0 and isinstance(val.name, str)) else u.KEY(g, k // 2)
    g.initializers[key] = val


@op("init_add", "hv")
def _init_add(u, h, v):
    u.G(h).initializers.add(u.V(v))


@op("init_register", "hv")
def _init_register(u, h, v):
    u.G(h).register_initializer(u.V(v))


@op("init_delitem", "hk")
def _init_delitem(u, h, k):
    g = u.G(h)
    del g.initializers[u.KEY(g, k)]


@op("init_pop", "hk")
def _init_pop(u, h, k):
    g = u.G(h)
    return g.initializers.pop(u.KEY(g, k))


@op("init_popitem", "h")
def _init_popitem(u, h):
    return u.G(h).initializers.popitem()[1]


@op("init_clear", "h")
def _init_clear(u, h):
    u.G(h).initializers.clear()


@op("init_update", "hLb")
def _init_update(u, h, vs, own):
    g = u.G(h)
    vals = u.VL(vs[:3])
    d = {}
    for j, val in enumerate(vals):
        key = val.name if (own or j % 2 == 0) and isinstance(val.name, str) else u.KEY(g, j)
        d[key] = val
    g.initializers.update(d)


@op("init_setdefault", "hkv")
def _init_setdefault(u, h, k, v):
    g = u.G(h)
    val = u.V(v)
    key = val.name if (k % 2 == 0 and isinstance(val.name, str)) else u.KEY(g, k // 2)
    return g.initializers.setdefault(key, val)


@op("init_ior", "hL")
def _init_ior(u, h, vs):
    g = u.G(h)
    vals = u.VL(vs[:3])
    init = g.initializers
    init |= {val.name: val for val in vals if isinstance(val.name, str)}


@op("v_set_name", "vs")
def _v_set_name(u, v, s):
    u.V(v).name = u.NAME(s)


@op("n_set_name", "ns")
def _n_set_name(u, n, s):
    u.N(n).name = u.NAME(s)


@op("conv_replace_nodes_values", "hnNNLL")
def _conv_replace(u, h, n, old, new, ov, nv):
    ir_conv.replace_nodes_and_values(
        u.H(h), u.N(n), u.NL(old[:2]), u.NL(new[:2]), u.VL(ov[:2]), u.VL(nv[:2])
    )


# ---- setters / constructors that do not touch use-def links (used by C20, C06) -----------------
@op("n_set_attr", "nii")
def _n_set_attr(u, n, k, val):
    u.N(n).attributes[f"attr{k % 3}"] = ir.AttrInt64(f"attr{k % 3}", val)


@op("n_set_fields", "nii")
def _n_set_fields(u, n, which, val):
    node = u.N(n)
    w = which % 4
    if w == 0:
        node.domain = ["", "ai.onnx", "custom"][val % 3]
    elif w == 1:
        node.op_type = OPS[val % len(OPS)]
    elif w == 2:
        node.overload = ["", "o1"][val % 2]
    else:
        node.version = [None, 18, 20][val % 3]


@op("v_set_fields", "vii")
def _v_set_fields(u, v, which, val):
    value = u.V(v)
    w = which % 4
    if w == 0:
        value.type = [None, ir.TensorType(ir.DataType.FLOAT), ir.TensorType(ir.DataType.INT64)][val % 3]
    elif w == 1:
        value.shape = [None, ir.Shape([2]), ir.Shape(["N", val])][val % 3]
    elif w == 2:
        value.const_value = None if val % 2 else u.tensor(val)
    else:
        value.merge_shapes([None, ir.Shape([2]), ir.Shape(["N", 3]), ir.Shape([None, None])][val % 4])


@op("v_merge_shapes", "vi")
def _v_merge_shapes(u, v, i):
    """Value.merge_shapes: an in-place edit of a value that is rejected when two concrete dimensions disagree."""
    value = u.V(v)
    k = i % 8
    if k == 0:
        value.shape = ir.Shape([None, 3, None])
    elif k == 1:
        value.shape = ir.Shape(["N", None])
    else:
        value.merge_shapes([ir.Shape([2, 3, 5]), ir.Shape([2, 4, 5]), ir.Shape([7, 3, 1]), ir.Shape([2]), ir.Shape(["N", 3, "M"]), ir.Shape([4, 6])][k - 2])


@op("v_set_equal", "vii")
def _v_set_equal(u, v, which, val):
    """Assign something that compares EQUAL to what the value holds without being interchangeable with it."""
    value = u.V(v)
    w = which % 4
    if w == 0:
        cur = value.type
        deno = [None, "IMAGE", "AUDIO"][val % 3]
        if isinstance(cur, ir.TensorType):
            value.type = ir.TensorType(cur.dtype, denotation=deno)  # TensorType.__eq__ ignores the denotation
        elif cur is None:
            value.type = ir.TensorType(ir.DataType.FLOAT, denotation=deno)
        else:
            value.type = cur
    elif w == 1:
        cur = value.shape
        dims = list(cur.dims) if cur is not None else [2, "N"]
        if val % 4 == 3:
            value.shape = dims  # a list that equals the shape: the setter documents Shape | None (raises TypeError)
            return
        new = ir.Shape(dims, denotations=["BATCH"] + [None] * (len(dims) - 1) if (val % 2 and dims) else None)
        value.shape = new
        if dims and val % 4 != 1:
            new[0] = 7  # the caller keeps editing the object it assigned
    elif w == 2:
        value.name = value.name
    else:
        value.const_value = value.const_value


@op("v_set_unprintable_const", "vi")
def _v_set_unprintable_const(u, v, i):
    """A constant whose repr() fails: a proto-backed tensor with truncated / over-long raw_data (what a deserialized
    malformed model holds).  Nothing but printing it reads the data."""
    import onnx
    from onnx_ir import serde

    tp = onnx.TensorProto(name="c_bad", data_type=[1, 7, 11][i % 3], dims=[2], raw_data=[b"\0\0\0", b"\0" * 7, b"\0" * 5][i % 3])
    u.V(v).const_value = serde.TensorProtoTensor(tp)


@op("v_set_lazy_const", "vi")
def _v_set_lazy_const(u, v, i):
    """A small lazily evaluated constant; the universe counts how often its function is called (a side effect of the
    user's own code: only reading the data may trigger it)."""
    import numpy as np

    def load():
        u.lazy_calls = getattr(u, "lazy_calls", 0) + 1
        return ir.Tensor(np.arange(3, dtype=np.float32) + i)

    u.V(v).const_value = ir.LazyTensor(load, ir.DataType.FLOAT, ir.Shape([3]), cache=bool(i % 2), name="c_lazy")


@op("tape_initializer", "hib")
def _tape_initializer(u, h, i, fresh):
    """ir.tape.Tape.initializer(): registers an initializer on the graph the tape was created for.  One tape per graph lives
    as long as the universe (so it may have been created before, inside or after any journal); `fresh` makes a new one."""
    import numpy as np

    g = u.G(h)
    tapes = u.__dict__.setdefault("tapes", {})
    if fresh or id(g) not in tapes:
        tapes[id(g)] = ir.tape.Tape(g)
    return tapes[id(g)].initializer(ir.Tensor(np.array([float(i)], dtype=np.float32)), name=f"tape_w{i % 5}")


@op("new_model", "h")
def _new_model(u, h):
    g = u.G(h)
    m = ir.Model(g, ir_version=10)
    return m


@op("new_function", "hi")
def _new_function(u, h, k):
    f = ir.Function("dom", f"fn{k % 3}", graph=u.G(h), attributes=[ir.AttrInt64("alpha", k)])
    f.name = f"fn{k % 2}"
    f.domain = ["dom", "d2"][k % 2]
    f.overload = ["", "ov"][k % 2]
    return f


SETTER_OPS = ["n_set_attr", "n_set_fields", "v_set_fields", "v_set_equal", "v_set_unprintable_const", "v_set_lazy_const", "tape_initializer", "new_model", "new_function"]
DEFAULT_OPS = [k for k in ALPHABET if k not in ("conv_replace_nodes_values",) and k not in SETTER_OPS]


def stress_tail(u):
    """A fixed sequence of edits applied after a history; returns what each step showed (exception class or ownership flags)."""
    obs = []
    graphs = list(u.graphs)[:4]
    values = list(u.values)[:14]

    def flags(v):
        g = v.graph
        return (v.is_graph_input(), v.is_graph_output(), v.is_initializer(), next((i for i, x in enumerate(u.graphs) if x is g), None), v.name)

    for gi, g in enumerate(graphs):
        for ci, coll in enumerate((g.inputs, g.outputs)):
            for vi, v in enumerate(values):
                step = f"g{gi}.{'inputs' if ci == 0 else 'outputs'}: append v{vi} twice, pop, remove"
                try:
                    coll.append(v)
                    coll.append(v)
                    coll.pop()
                    mid = flags(v)
                    coll.remove(v)
                    obs.append((step, mid, flags(v), len(coll)))
                except Exception as e:
                    obs.append((step, type(e).__name__, flags(v), len(coll)))
        for vi, v in enumerate(values):
            step = f"g{gi}.initializers: register v{vi}, rename, unregister"
            try:
                had = v.name in g.initializers
                g.register_initializer(v)
                a = flags(v)
                old = v.name
                v.name = f"{old}_t"
                b = (flags(v), sorted(k for k in g.initializers if k in (old, f"{old}_t")))
                v.name = old
                if not had:
                    del g.initializers[old]
                obs.append((step, a, b, flags(v)))
            except Exception as e:
                obs.append((step, type(e).__name__, flags(v)))
    return obs


def op_strategy(names=None):
    """Hypothesis strategy producing one op (a list)."""
    from hypothesis import strategies as st

    idx = st.integers(0, 40)
    small = st.integers(0, 7)
    lst = st.lists(idx, min_size=0, max_size=4)
    spec_map = {
        "h": st.integers(0, 3),
        "n": idx,
        "v": idx,
        "V": idx,
        "i": small,
        "b": st.booleans(),
        "s": st.integers(0, len(NAMES) - 1),
        "N": lst,
        "L": lst,
        "W": lst,
        "S": st.lists(st.integers(0, len(NAMES) - 1), min_size=0, max_size=4),
        "k": idx,
        "c": st.integers(0, 1),
    }
    names = list(names or DEFAULT_OPS)
    strategies = []
    for name in names:
        spec, _ = ALPHABET[name]
        strategies.append(st.tuples(st.just(name), *[spec_map[ch] for ch in spec]).map(list))
    return st.one_of(strategies)


def run_op(u, op, returns=None):
    """Execute one op; returns (raised_exception_or_None). If `returns` is a list the op's return value is appended."""
    name = op[0]
    spec, fn = ALPHABET[name]
    args = op[1:]
    if len(args) != len(spec):
        raise Malformed(f"arity {name}")
    try:
        r = fn(u, *args)
        if returns is not None:
            returns.append(r)
        return None
    except Malformed:
        raise
    except Exception as e:  # an exception is a legal outcome of any editing call
        return e

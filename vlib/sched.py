"""Deterministic cooperative scheduler + fake Lock/Condition/ThreadPoolExecutor/as_completed (C09).

Managed threads are real threads, but exactly one of them runs at any time: each is parked on its own
semaphore and control returns to the scheduler at every synchronisation point (lock acquire/release,
condition wait/notify, future result, submit, shutdown, worker task fetch/finish, and explicit
`yield_point` calls made by instrumented tensors and callbacks).  The next thread is chosen from a list
of integers (`choice % len(runnable)`; lowest id once the list is exhausted), so a schedule is a pure
function of that list.  A state in which an unfinished thread exists but none is runnable is reported
as `Deadlock` (a lost wake-up or a leaked budget shows up as this).

`install(sched)` replaces the names `threading` and `concurrent` in `onnx_ir.external_data` only.
"""

from __future__ import annotations

import threading as _real


class Abort(BaseException):
    """Raised inside managed threads to unwind them after a deadlock was detected."""


class Deadlock(Exception):
    pass


class _MT:
    def __init__(self, tid):
        self.id = tid
        self.sem = _real.Semaphore(0)
        self.state = "runnable"  # runnable | blocked | done
        self.pred = None
        self.reason = ""
        self.thread = None


class Sched:
    def __init__(self, choices=(), max_steps=20000):
        self.choices = list(choices)
        self.ci = 0
        self.threads = []
        self.by_ident = {}
        self.aborting = False
        self.deadlock = None
        self.steps = 0
        self.max_steps = max_steps
        self.switches = 0
        self.decisions = []  # (number of options, picked)
        self.trace = []
        main = _MT(0)
        main.thread = _real.current_thread()
        self.threads.append(main)
        self.by_ident[_real.get_ident()] = main

    # -- helpers --------------------------------------------------------------------------------
    def cur(self):
        return self.by_ident.get(_real.get_ident())

    def _candidates(self):
        out = []
        for t in self.threads:
            if t.state == "runnable":
                out.append(t)
            elif t.state == "blocked" and t.pred is not None:
                try:
                    ok = t.pred()
                except Exception:
                    ok = False
                if ok:
                    out.append(t)
        return out

    def _pick(self, cands):
        if len(cands) == 1:
            return cands[0]
        if self.ci < len(self.choices):
            k = self.choices[self.ci] % len(cands)
            self.ci += 1
        else:
            k = 0
        self.decisions.append((len(cands), k))
        return cands[k]

    def _switch(self, me):
        """Hand the baton to the next thread. `me` may be runnable, blocked or done."""
        if self.aborting:
            if me.state != "done":
                raise Abort()
            return
        self.steps += 1
        if self.steps > self.max_steps:
            self._abort(f"no termination within {self.max_steps} scheduling steps")
            if me.state != "done":
                raise Abort()
            return
        cands = self._candidates()
        if not cands:
            if all(t.state == "done" for t in self.threads):
                return
            self._abort("deadlock: " + "; ".join(f"T{t.id} {t.state} on {t.reason}" for t in self.threads if t.state != "done"))
            if me.state != "done":
                raise Abort()
            return
        nxt = self._pick(cands)
        if nxt is me:
            me.state = "runnable"
            me.pred = None
            return
        self.switches += 1
        nxt.state = "runnable"
        nxt.pred = None
        nxt.sem.release()
        if me.state != "done":
            me.sem.acquire()
            if self.aborting:
                raise Abort()

    def _abort(self, why):
        if not self.aborting:
            self.aborting = True
            self.deadlock = why
            for t in self.threads:
                if t.state != "done":
                    t.sem.release()

    # -- API used by the fakes ---------------------------------------------------------------------
    def yield_point(self, reason=""):
        me = self.cur()
        if me is None or self.aborting:
            if self.aborting and me is not None and me.id != 0:
                raise Abort()
            return
        me.reason = reason
        self._switch(me)

    def block_until(self, pred, reason=""):
        me = self.cur()
        if me is None:
            return
        while not pred():
            if self.aborting:
                raise Abort()
            me.state = "blocked"
            me.pred = pred
            me.reason = reason
            self._switch(me)
        me.state = "runnable"
        me.pred = None

    def spawn(self, fn):
        t = _MT(len(self.threads))
        self.threads.append(t)

        def run():
            self.by_ident[_real.get_ident()] = t
            t.sem.acquire()  # wait to be scheduled for the first time
            try:
                if not self.aborting:
                    fn()
            except Abort:
                pass
            finally:
                t.state = "done"
                try:
                    self._switch(t)
                except Abort:
                    pass

        t.thread = _real.Thread(target=run, daemon=True)
        t.thread.start()
        return t

    def finish(self):
        """Called by the main thread after the code under test returned: let remaining threads end."""
        me = self.cur()
        self.block_until(lambda: all(t.state == "done" for t in self.threads if t is not me), "join all")


# ---- fakes ----------------------------------------------------------------------------------------
def make_fakes(sched):
    class Lock:
        def __init__(self):
            self.owner = None

        def acquire(self, blocking=True, timeout=-1):
            if sched.aborting:
                return True
            sched.yield_point("lock.acquire")
            sched.block_until(lambda: self.owner is None, "lock")
            self.owner = sched.cur()
            return True

        def release(self):
            self.owner = None
            if not sched.aborting:
                sched.yield_point("lock.release")

        def locked(self):
            return self.owner is not None

        def __enter__(self):
            self.acquire()
            return self

        def __exit__(self, *a):
            self.release()
            return False

    class Condition:
        def __init__(self, lock=None):
            self._lock = lock or Lock()
            self._gen = 0

        def __enter__(self):
            self._lock.acquire()
            return self

        def __exit__(self, *a):
            self._lock.release()
            return False

        def acquire(self, *a, **k):
            return self._lock.acquire()

        def release(self):
            self._lock.release()

        def wait(self, timeout=None):
            if sched.aborting:
                raise Abort()
            gen = self._gen
            self._lock.owner = None
            sched.block_until(lambda: self._gen > gen, "condition.wait")
            sched.block_until(lambda: self._lock.owner is None, "condition reacquire")
            self._lock.owner = sched.cur()
            return True

        def wait_for(self, predicate, timeout=None):
            while not predicate():
                self.wait()
            return True

        def notify_all(self):
            self._gen += 1

        def notify(self, n=1):
            self._gen += 1

    class Future:
        def __init__(self):
            self._done = False
            self._result = None
            self._exc = None
            self._cancelled = False
            self._running = False

        def done(self):
            return self._done

        def cancelled(self):
            return self._cancelled

        def cancel(self):
            if self._running or (self._done and not self._cancelled):
                return False
            self._cancelled = True
            self._done = True
            return True

        def result(self, timeout=None):
            sched.yield_point("future.result")
            sched.block_until(lambda: self._done, "future")
            if self._cancelled:
                import concurrent.futures as cf

                raise cf.CancelledError()
            if self._exc is not None:
                raise self._exc
            return self._result

        def exception(self, timeout=None):
            sched.block_until(lambda: self._done, "future")
            return self._exc

    class ThreadPoolExecutor:
        instances = []

        def __init__(self, max_workers=None, *a, **k):
            self.max_workers = max_workers or 4
            self.queue = []
            self.workers = []
            self.idle = 0
            self._shutdown = False
            ThreadPoolExecutor.instances.append(self)

        def submit(self, fn, *a, **k):
            if self._shutdown:
                raise RuntimeError("cannot schedule new futures after shutdown")
            f = Future()
            self.queue.append((f, fn, a, k))
            if self.idle == 0 and len(self.workers) < self.max_workers:
                self.workers.append(sched.spawn(self._worker))
            sched.yield_point("submit")
            return f

        def _worker(self):
            while True:
                self.idle += 1
                sched.block_until(lambda: bool(self.queue) or self._shutdown, "task fetch")
                self.idle -= 1
                if self.queue:
                    f, fn, a, k = self.queue.pop(0)
                    if f._cancelled:
                        continue
                    f._running = True
                    try:
                        f._result = fn(*a, **k)
                    except Abort:
                        raise
                    except BaseException as e:  # noqa: BLE001 - mirrors concurrent.futures
                        f._exc = e
                    f._running = False
                    f._done = True
                    sched.yield_point("task done")
                elif self._shutdown:
                    return

        def shutdown(self, wait=True, cancel_futures=False):
            self._shutdown = True
            if cancel_futures:
                for f, *_ in self.queue:
                    f.cancel()
                self.queue.clear()
            sched.yield_point("shutdown")
            if wait and not sched.aborting:
                sched.block_until(lambda: all(w.state == "done" for w in self.workers), "executor shutdown")

        def __enter__(self):
            return self

        def __exit__(self, *a):
            self.shutdown(wait=True)
            return False

    def as_completed(fs, timeout=None):
        pending = list(fs)
        while pending:
            sched.block_until(lambda: any(f._done for f in pending), "as_completed")
            for f in [f for f in pending if f._done]:
                pending.remove(f)
                yield f

    class FakeThreading:
        local = _real.local
        get_ident = staticmethod(_real.get_ident)
        current_thread = staticmethod(_real.current_thread)

    FakeThreading.Lock = Lock
    FakeThreading.RLock = Lock
    FakeThreading.Condition = Condition

    class _Futures:
        pass

    _Futures.ThreadPoolExecutor = ThreadPoolExecutor
    _Futures.as_completed = staticmethod(as_completed)
    import concurrent.futures as cf

    _Futures.CancelledError = cf.CancelledError
    _Futures.Future = Future

    class FakeConcurrent:
        futures = _Futures

    return FakeThreading, FakeConcurrent, ThreadPoolExecutor


class install:
    """Context manager: route onnx_ir.external_data's threading/concurrent through `sched`."""

    def __init__(self, sched):
        self.sched = sched

    def __enter__(self):
        from onnx_ir import external_data

        self.mod = external_data
        self.saved = (external_data.threading, external_data.concurrent)
        ft, fc, self.executor_cls = make_fakes(self.sched)
        external_data.threading = ft
        external_data.concurrent = fc
        return self

    def __exit__(self, *a):
        self.mod.threading, self.mod.concurrent = self.saved
        return False


def selftest():
    """A deliberately lock-inverted toy program must be reported as a deadlock for some schedule."""
    found = False
    for choices in ([0, 1, 0, 1, 0, 1], [1, 0, 1, 0], [0, 0, 1, 1, 0], [1, 1, 0, 0, 1]):
        s = Sched(choices)
        ft, fc, _ = make_fakes(s)
        a, b = ft.Lock(), ft.Lock()

        def t1():
            with a:
                s.yield_point("t1 has a")
                with b:
                    pass

        def t2():
            with b:
                s.yield_point("t2 has b")
                with a:
                    pass

        s.spawn(t1)
        s.spawn(t2)
        try:
            s.finish()
        except Abort:
            pass
        if s.deadlock:
            found = True
            break
    assert found, "scheduler did not detect the lock inversion deadlock"
    # and a correct producer/consumer must terminate under any of these schedules
    for choices in ([0, 1, 0, 1], [1, 1, 1], []):
        s = Sched(choices)
        ft, fc, _ = make_fakes(s)
        ex = fc.futures.ThreadPoolExecutor(max_workers=2)
        fs = [ex.submit(lambda i=i: i * 2) for i in range(4)]
        got = sorted(f.result() for f in fc.futures.as_completed(fs))
        ex.shutdown(wait=True)
        s.finish()
        assert got == [0, 2, 4, 6] and not s.deadlock, (got, s.deadlock)

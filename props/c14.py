"""C14 - passes honour their contract: identity, modified flag, fixpoint, no damage."""

from __future__ import annotations

import os

ID = "C14"
LEVEL = "exploration"
TECHNIQUE = (
    "property-based contract testing with enumerated boundary faults: generated models (runnable generator + IR edits "
    "that unsort/un-name them) x each built-in pass; oracles: object identity of the result, modified=False => identical "
    "serialization, bounded fixpoint iteration, C01 invariants, C12 order predicate, serializability, and for the "
    "analysing passes (checker, shape inference) a full before/after snapshot under every injected fault at the ONNX "
    "call boundary (raising lazy tensor during serialization, raising checker / shape-inference stub)"
)
LEVEL_TEXT = (
    "Generated exploration of models x passes; the three boundary faults are enumerated for every model on which an "
    "analysing pass is exercised. Fixpoint is checked for single passes only (compositions may legitimately oscillate)."
)
TRUSTED = "vlib/invariants.py, vlib/snapshot.py, protobuf deterministic serialization, harness stubs for onnx.checker / onnx.shape_inference"
RULE = (
    "case = model tape + IR edit script + pass index/parameters + fault in {none, raising lazy initializer, raising "
    "checker stub, raising inference stub}. Non-trivial = the pass changed the model in some round, or a fault was "
    "injected at the ONNX boundary with >=2 initializers (one above the 1 kB strip limit). distinct = case JSON."
)
ASSUMPTIONS = [
    "the fixpoint bound is #nodes + #values + #functions + 2 rounds (statement: bounded by the size of the model)",
    "exceptions documented by a pass count as 'input rejected'",
]
BUDGET = {"quick": (16, 1200), "thorough": (16, 10000)}


def strategy(tier, phase):
    from hypothesis import strategies as st

    from props import c05
    from vlib import rmodel

    edit = st.tuples(st.integers(0, 13), st.integers(0, 60), st.integers(0, 60), st.integers(0, 60)).map(list)
    return st.fixed_dictionaries({"gen": st.sampled_from([2, 3, 4, 4, 5]), "journal": st.sampled_from([False, False, False, True]), "tape": rmodel.tape_strategy(), "edits": st.lists(edit, max_size=4), "pass": st.integers(0, len(c05.PASSES) - 1),
                                  "param": st.integers(0, 7), "fault": st.sampled_from([0, 0, 0, 1, 2, 3, 4]), "gattr": st.sampled_from([False, False, False, True]), "functional": st.booleans(), "wrap": st.sampled_from([0, 0, 1, 2, 3]),
                                  # history of the pass OBJECT: it may have processed another model before (state left over from a previous call)
                                  "prelude": st.one_of(st.just([]), st.just([]), rmodel.tape_strategy(100)),
                                  "prelude_edit": st.one_of(st.just([]), st.just([]), st.lists(st.tuples(st.one_of(st.integers(0, 12), st.integers(0, 12), st.integers(0, 80)), st.integers(0, 2**16)).map(list), min_size=1, max_size=3))})


class Boom(Exception):
    pass


def _ser(model):
    import onnx_ir as ir

    try:
        return ir.to_proto(model).SerializeToString(deterministic=True)
    except Exception:
        return None


def _mask_bytes(b):
    """Serialized model with the own names of attribute tensors cleared (tensor objects are shared between a clone
    and its original by design, and serialization aligns an initializer tensor's name with its value)."""
    import onnx

    if b is None:
        return None
    m = onnx.ModelProto()
    m.ParseFromString(b)

    def walk(g):
        for n in g.node:
            for a in n.attribute:
                if a.HasField("t"):
                    a.t.ClearField("name")
                for t in a.tensors:
                    t.ClearField("name")
                if a.HasField("g"):
                    walk(a.g)
                for sg in a.graphs:
                    walk(sg)

    walk(m.graph)
    for f in m.functions:
        walk(f)
    return m.SerializeToString(deterministic=True)


def _ser_masked(model):
    return _mask_bytes(_ser(model))


def _all_graphs(model):
    from props import c13

    return c13._all_graphs(model)


def execute(case):
    if case.get("journal"):
        # the same case while a Journal is recording: its wrappers sit between the pass and every editing method it calls
        from onnx_ir.journaling import Journal

        with Journal():
            out = _execute(case)
        out.setdefault("classes", []).append("pass_inside_active_journal")
        return out
    return _execute(case)


def _execute(case):
    import numpy as np
    import onnx

    import onnx_ir as ir
    from onnx_ir import passes
    from props import c03, c05, c12
    from vlib import invariants, rmodel, snapshot
    from vlib import universe as U

    try:
        proto, features = rmodel.build(case["tape"], case.get("gen", 1))
        pidx, param, fault = case["pass"], case["param"], case["fault"] % 5
        edits = case["edits"]
    except (KeyError, TypeError):
        return dict(failures=[], nontrivial=False, classes=["malformed"])
    try:
        onnx.checker.check_model(proto, full_check=True)
    except Exception:
        return dict(failures=[], nontrivial=False, classes=["seed_invalid"])
    model = ir.from_proto(proto)
    ctx = c03.Ctx(model)
    ctx.allow_pending = False  # (an initializer entry without data makes the model invalid ONNX: no promise about passes)
    for op in edits:
        try:
            # no tensor-class swaps (not needed here) and no outputs beyond the operator's schema (the model would be
            # invalid ONNX, where the statement makes no promise about passes)
            if isinstance(op, list) and len(op) == 4 and op[0] in (0, 3, 4, 5, 7, 8, 9, 12, 13):
                if op[0] == 12:
                    # new inputs/outputs only on the main graph: on a function or a control-flow body they change the
                    # arity its call sites / its operator expect, i.e. the model becomes invalid
                    gs = ctx.graphs()
                    if gs[op[1] % len(gs)] is not model.graph:
                        continue
                c03.apply_op(ctx, op)
        except Exception:
            pass
    if any(isinstance(op, list) and op and op[0] == 9 for op in edits):
        # replace_all_uses_with may have closed a cycle (a node consuming its own output): such a model is not a valid
        # one, and a pass refusing it (e.g. an unsafe removal) is not a contract violation
        try:
            copy_ = ir.from_proto(ir.to_proto(model))
            copy_.graph.sort()
            for f_ in copy_.functions.values():
                f_.sort()
        except Exception:
            return dict(failures=[], nontrivial=False, classes=["cyclic_after_edits"])
    name = c05.PASSES[pidx % len(c05.PASSES)]
    analysing = name in ("CheckerPass", "ShapeInferencePass")
    fails = []
    classes = [name] + sorted("model:" + f for f in features)
    nontrivial = False
    # ---- boundary faults for the analysing passes ------------------------------------------------------
    if analysing:
        big = ir.Value(name="c14_big", const_value=ir.Tensor(np.arange(600, dtype=np.float32), name="c14_big"))
        small = ir.Value(name="c14_small", const_value=ir.Tensor(np.arange(3, dtype=np.float32), name="c14_small"))
        untyped = ir.Value(name="c14_untyped", const_value=ir.Tensor(np.arange(4, dtype=np.int64), name="c14_untyped"))
        # order matters: a big one in the middle so that re-registration at the end would be visible
        for v in (small, big, untyped):
            model.graph.initializers.add(v)
        # sizes around the 1 kB limit below which the ONNX boundary keeps the data in the proto (996, 1000, 1004 bytes)
        for k_, n_ in enumerate((249, 250, 251)):
            if (param >> 1) % 2 or k_ == 1:
                model.graph.initializers.add(ir.Value(name=f"c14_edge{n_}", const_value=ir.Tensor(np.arange(n_, dtype=np.float32), name=f"c14_edge{n_}")))
        if model.graph.initializers and param % 2:
            first = next(iter(model.graph.initializers.values()))
            if not any(first is x for x in model.graph.inputs):
                model.graph.inputs.append(first)
        if fault == 1:
            def thunk():
                raise Boom("lazy initializer cannot be evaluated")

            lz = ir.Value(name="c14_lazy", const_value=ir.LazyTensor(thunk, ir.DataType.FLOAT, ir.Shape([2]), name="c14_lazy"))
            model.graph.initializers.add(lz)
            classes.append("fault_lazy_serialization")
        if fault == 4:
            # a tensor that cannot even be asked for its size (the failure strikes while the call is being prepared,
            # before anything is serialized), followed by further initializers
            class SizelessTensor(ir.Tensor):
                @property
                def nbytes(self):
                    raise Boom("size of this tensor is not available")

            model.graph.initializers.add(ir.Value(name="c14_sizeless", const_value=SizelessTensor(np.arange(5, dtype=np.float32), name="c14_sizeless")))
            model.graph.initializers.add(ir.Value(name="c14_after_a", const_value=ir.Tensor(np.arange(300, dtype=np.float32), name="c14_after_a")))
            model.graph.initializers.add(ir.Value(name="c14_after_b", const_value=ir.Tensor(np.arange(2, dtype=np.int64), name="c14_after_b")))
            classes.append("fault_tensor_size_query")
        u = U.Universe.from_model(model)
        snap_before = c03._mask(snapshot.take(u, with_ids=False))
        bytes_before = _ser(model) if fault not in (1, 4) else None
        order_before = list(model.graph.initializers.keys())
        inputs_before = [id(v) for v in model.graph.inputs]
        saved = (onnx.checker.check_model, onnx.shape_inference.infer_shapes)
        raised_inference = False
        try:
            if fault == 2:
                def stub(*a, **k):
                    raise onnx.checker.ValidationError("injected checker failure")

                onnx.checker.check_model = stub
                classes.append("fault_checker_stub")
            if fault == 3:
                def stub2(*a, **k):
                    raise RuntimeError("injected inference failure")

                onnx.shape_inference.infer_shapes = stub2
                classes.append("fault_inference_stub")
            p = c05.make_pass(pidx, param)
            exc = None
            try:
                r = p(model)
            except BaseException as e:  # noqa: BLE001
                exc = e
                r = None
        finally:
            onnx.checker.check_model, onnx.shape_inference.infer_shapes = saved
        must_be_unchanged = name == "CheckerPass" or fault in (1, 3, 4) or (r is not None and not r.modified)
        if must_be_unchanged:
            u.sweep()
            snap_after = c03._mask(snapshot.take(u, with_ids=False))
            how = "raised " + type(exc).__name__ if exc is not None else "returned"
            if snap_after != snap_before:
                fields = sorted({c13_label(kd, j) for kd, j in snapshot.diff_fields(snap_before, snap_after)})
                fails.append((f"analysis-pass-changed-model/{name}/{','.join(fields)[:50]}", f"{name} ({how}, fault={fault}) changed the model: {snapshot.diff(snap_before, snap_after)}"[:600]))
            if list(model.graph.initializers.keys()) != order_before:
                fails.append((f"initializer-order-changed/{name}", f"{name} ({how}): initializer order {order_before} -> {list(model.graph.initializers.keys())}"[:400]))
            if [id(v) for v in model.graph.inputs] != inputs_before:
                fails.append((f"graph-inputs-changed/{name}", f"{name} ({how}): graph inputs changed ({len(inputs_before)} -> {len(model.graph.inputs)})"))
            if bytes_before is not None:
                b2 = _ser(model)
                if b2 != bytes_before:
                    fails.append((f"analysis-pass-changed-serialization/{name}", f"{name} ({how}, fault={fault}): the model serializes differently afterwards"))
        if r is not None and r.model is not model:
            fails.append((f"in-place-pass-returned-other-object/{name}", "an in-place pass returned a different Model object"))
        nontrivial = fault != 0 or (r is not None and r.modified)
        return dict(failures=_dd(fails), nontrivial=nontrivial, classes=classes)
    # ---- all other passes ---------------------------------------------------------------------------------
    if case.get("gattr"):
        # every If becomes a custom-domain node carrying its branches in ONE attribute of type GRAPHS (no standard operator
        # has such an attribute; nothing is executed here, the contract clauses are about structure and flags)
        from props import c18

        hit = False
        for g_ in _all_graphs(model):
            for n_ in list(g_):
                if n_.op_type == "If" and "then_branch" in n_.attributes and "else_branch" in n_.attributes:
                    tb = n_.attributes.pop("then_branch").as_graph()
                    eb = n_.attributes.pop("else_branch").as_graph()
                    n_.attributes.add(ir.Attr("branches", ir.AttributeType.GRAPHS, [tb, eb] if param % 2 else [eb, tb]))
                    n_.op_type, n_.domain = "MultiBranch", "custom.ops"
                    hit = True
        if hit:
            model.graph.opset_imports.setdefault("custom.ops", 1)
            for f_ in model.functions.values():
                f_.opset_imports.setdefault("custom.ops", 1)
            classes.append("graphs_attribute")
    p = c05.make_pass(pidx, param)
    prelude_tape = case.get("prelude") or []
    if not prelude_tape and case.get("prelude_edit"):
        # the "same" model before an edit: the tape of the model under test with a few positions changed
        prelude_tape = list(case["tape"])
        for pos, val in case["prelude_edit"]:
            if prelude_tape:
                prelude_tape[pos % len(prelude_tape)] = val
    if prelude_tape:
        try:
            other, _ = rmodel.build(prelude_tape, case.get("gen", 1))
            p(ir.from_proto(other))
            classes.append("pass_object_used_before")
        except Exception:
            pass
    # functionalize() clones the model, and the cloner documents that it needs topologically sorted graphs
    functional = bool(case.get("functional")) and not c12.order_violations(_all_graphs(model))
    if functional:
        p = passes.functionalize(p)
        classes.append("functionalized")
    wrap = case.get("wrap", 0) % 4
    if wrap:
        # the combinators are passes themselves and owe the same contract (identity rule, modified flag, fixpoint)
        p = [None, lambda q: passes.Sequential(q), lambda q: passes.PassManager([q], steps=2, early_stop=True),
             lambda q: passes.PassManager([q], steps=3, early_stop=False)][wrap](p)
        classes.append(["", "Sequential", "PassManager_early_stop", "PassManager_fixed_steps"][wrap])
    manual = None
    if functional and wrap in (2, 3):
        # documented meaning of PassManager(steps=k, early_stop): the sequence is run k times, each step on the result of
        # the previous one, stopping early when a step reports no modification.  The inner pass is functional here, so
        # the same input object can be given to the manual loop without cloning it.
        try:
            q = passes.functionalize(c05.make_pass(pidx, param))
            cur2 = model
            for _ in range(2 if wrap == 2 else 3):
                rr = q(cur2)
                cur2 = rr.model
                if wrap == 2 and not rr.modified:
                    break
            manual = _ser_masked(cur2)
        except Exception:
            manual = None
    graphs_before = _all_graphs(model)
    sorted_before = not c12.order_violations(graphs_before)
    b0 = _ser(model)
    n_nodes = sum(len(g) for g in graphs_before)
    n_values = len(U.Universe.from_model(model).values)
    bound = n_nodes + n_values + len(model.functions) + 2
    cur = model
    rounds = 0
    changed = False
    prev_bytes = b0
    converged = False
    while rounds <= bound + 1:
        try:
            r = p(cur)
        except Exception as e:
            root = e
            while root.__cause__ is not None:
                root = root.__cause__
            documented = isinstance(e, (passes.PreconditionError, passes.InvariantError)) or (isinstance(root, ValueError) and ("cycle" in str(root) or "nlin" in str(root) or "unction" in str(root) or "pset" in str(root)))
            if isinstance(root, ValueError) and "outer-scope value" in str(root) and c12.order_violations(_all_graphs(cur)):
                documented = True  # the cloner (used by the inliner) documents that it needs sorted graphs
            if documented:
                classes.append("pass_rejected_input")
                break
            import traceback

            tb = traceback.extract_tb(root.__traceback__)
            where = [f"{os.path.basename(f.filename)}:{f.name}" for f in tb if "onnx_ir" in f.filename][-1:] or ["?"]
            fails.append((f"crash/{name}/{type(root).__name__}@{where[0]}", f"{name} raised {type(root).__name__}: {root} (round {rounds})"[:400]))
            break
        rounds += 1
        same_obj = r.model is cur
        if functional and same_obj:
            fails.append((f"functional-pass-returned-input/{name}", "a functional pass returned its input model object"))
        if not functional and not same_obj:
            fails.append((f"in-place-pass-returned-other-object/{name}", "an in-place pass returned a different Model object"))
        nb = _ser(r.model)
        if rounds == 1 and manual is not None and nb is not None and _mask_bytes(nb) != manual:
            fails.append((f"pass-manager-differs-from-manual-rounds/{name}", f"PassManager(steps={2 if wrap == 2 else 3}, early_stop={wrap == 2}) over functionalize({name}) does not give what applying the pass step by step gives"))
        if prev_bytes is not None and nb is None:
            fails.append((f"unserializable-after/{name}", f"{name}: the model could be serialized before round {rounds} and cannot afterwards"))
            break
        if not r.modified and nb != prev_bytes and prev_bytes is not None:
            from vlib import protocanon
            import onnx as _onnx

            a, b = _onnx.ModelProto(), _onnx.ModelProto()
            a.ParseFromString(prev_bytes)
            b.ParseFromString(nb)
            d = protocanon.first_diff(a, b)
            fails.append((f"modified-false-but-changed/{name}/{d[0] if d else '?'}", f"{name} reported modified=False but the serialized model changed: {d[1] if d else ''}"[:400]))
        if functional and _ser_masked(cur) != _mask_bytes(prev_bytes):
            fails.append((f"functional-pass-altered-input/{name}", "the input of a functional pass serializes differently afterwards"))
        uu = U.Universe.from_model(r.model)
        errs = invariants.check_all(uu)
        if errs:
            fails.append((f"inconsistent-ir-after/{name}/{errs[0][0]}", f"{name}: {errs[0][1]}"))
        if sorted_before and c12.order_violations(_all_graphs(r.model)):
            fails.append((f"order-broken/{name}", f"{name}: graphs were topologically ordered before and are not afterwards"))
        if r.modified or nb != prev_bytes:
            changed = True
        if not r.modified and nb == prev_bytes:
            if converged:
                break  # one extra application stayed at the fixpoint
            converged = True
        else:
            if converged:
                fails.append((f"fixpoint-left/{name}", f"{name}: after reporting no modification, another application changed the model again"))
                break
        prev_bytes = nb
        cur = r.model
        if fails:
            break
    else:
        fails.append((f"no-fixpoint/{name}", f"{name} still reports modifications after {rounds} rounds (bound {bound})"))
    nontrivial = changed
    if changed:
        classes.append("changed_model")
    return dict(failures=_dd(fails), nontrivial=nontrivial, classes=classes)


def c13_label(kind, j):
    from vlib import history

    return history.field_label(kind, j)


def _dd(fails):
    seen, out = set(), []
    for b, m in fails:
        if b not in seen:
            seen.add(b)
            out.append((b, m))
    return out

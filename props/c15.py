"""C15 - generated names never collide; name fixing yields unique names; bulk rename is atomic."""

from __future__ import annotations

ID = "C15"
LEVEL = "exploration"
TECHNIQUE = (
    "stateful property-based testing with model oracles: (a) add/remove/re-add histories against the harness's own "
    "set of registered names, (b) NameFixPass post-conditions (validity predicate + names-erased snapshot) on "
    "generated models with missing/duplicated names across nested scopes and functions, (c) rename_values "
    "all-or-nothing checked by snapshot / target-name oracle"
)
LEVEL_TEXT = (
    "Generated exploration of three input families; oracles are predicates over the outcome (many valid renamings "
    "exist), the harness's own model of registered names, and before/after snapshots."
)
TRUSTED = "harness model of 'names registered so far'; vlib.snapshot; vlib.invariants"
RULE = (
    "mode a: script of Graph.append/extend/insert_before/insert_after/Node(graph=)/remove/re-add, renames of live members "
    "and moves inside the graph (a move registers the names the node has then) with explicit, None "
    "and generated-looking names (val_k, node_Op_k near the counters); mode b: model with 1-10 nodes over main graph, "
    "nested subgraphs and a function, names drawn from a tiny alphabet incl. None and '' so duplicates and fresh-name "
    "collisions (w, w, w_1) occur, then NameFixPass; mode c: rename_values over initializers of two graphs, inputs and "
    "node outputs with permutations, swaps, cycles, collisions with outsiders, '' and duplicates. Non-trivial: (a) >=1 "
    "explicit generated-looking name and >=1 auto-named object after it; (b) >=1 duplicate or missing name in a "
    "nested scope or function; (c) >=2 initializers renamed with a swap/cycle or a collision. distinct = case JSON."
)
ASSUMPTIONS = [
    "names set later through Value.name/Node.name are not 'registered' with the graph and are not held against it",
    "'already unique' = non-empty and shared with no other value (node) of its own graph, any enclosing graph or any nested graph",
]
BUDGET = {"quick": (16, 1500), "thorough": (16, 25000)}

NAME_CODES = [None, "", "n", "x", "w", "w_1", "v", "v_1", "val_0", "val_1", "val_2", "val_3", "val_4", "val_5",
              "node_Op_0", "node_Op_1", "node_Op_2", "node_Op_3", "node", "node_1"]


def strategy(tier, phase):
    from hypothesis import strategies as st

    code = st.integers(0, len(NAME_CODES) - 1)
    biased = st.one_of(st.just(0), st.just(0), code)
    nodespec = st.tuples(biased, st.lists(biased, min_size=0, max_size=2)).map(list)
    op_a = st.one_of(
        st.tuples(st.just("add"), st.integers(0, 4), st.lists(nodespec, min_size=1, max_size=3), st.integers(0, 9)).map(list),
        st.tuples(st.just("add"), st.integers(0, 4), st.lists(nodespec, min_size=1, max_size=3), st.integers(0, 9)).map(list),
        st.tuples(st.just("remove"), st.integers(0, 9)).map(list),
        st.tuples(st.just("readd"), st.integers(0, 9), st.integers(0, 3), st.integers(0, 9)).map(list),
        st.tuples(st.just("rename"), st.integers(0, 9), st.integers(0, 2), st.integers(2, len(NAME_CODES) - 1)).map(list),
        st.tuples(st.just("move"), st.integers(0, 9), st.integers(2, 3), st.integers(0, 9)).map(list),
        # a named graph input / initializer that joins the graph after its construction
        st.tuples(st.just("iface"), st.integers(0, 3), st.integers(2, len(NAME_CODES) - 1)).map(list),
    )
    mode_a = st.fixed_dictionaries({"mode": st.just("a"), "inputs": st.lists(code, max_size=3), "inits": st.lists(st.integers(2, len(NAME_CODES) - 1), max_size=2),
                                    "ops": st.lists(op_a, min_size=1, max_size=14)})
    # mode b
    small = st.sampled_from([None, "", "w", "w", "w_1", "v", "v_1", "x", "val_0", "node", "node_1", "n"])
    bnode = st.tuples(st.integers(0, 5), st.sampled_from([0, 0, 1, 1, 2]), small, st.lists(small, min_size=1, max_size=2),
                      st.lists(st.integers(-1, 20), max_size=2)).map(list)
    mode_b = st.fixed_dictionaries({"mode": st.just("b"), "nodes": st.lists(bnode, min_size=1, max_size=10),
                                    "gin": st.lists(small, max_size=3), "ginit": st.lists(small, max_size=3),
                                    "fn": st.lists(bnode, min_size=0, max_size=4), "fin": st.lists(small, max_size=2), "finit": st.lists(small, max_size=2),
                                    "again": st.one_of(st.just([]), st.lists(st.tuples(st.integers(0, 40), st.integers(0, 40)).map(list), min_size=1, max_size=3))})
    # mode c
    mode_c = st.fixed_dictionaries({"mode": st.just("c"), "vals": st.lists(st.integers(0, 30), min_size=1, max_size=6),
                                    "names": st.lists(st.integers(0, 12), min_size=1, max_size=6), "kind": st.integers(0, 3),
                                    "pre": st.lists(st.tuples(st.integers(0, 3), st.integers(0, 30)).map(list), max_size=3)})
    return st.one_of(mode_a, mode_b, mode_b, mode_c)


class Malformed(Exception):
    pass


# ------------------------------------------------------------------------------------------------ mode a
def run_a(case):
    import onnx_ir as ir

    fails = []
    reg_nodes, reg_values = set(), set()
    ins = [ir.Value(name=NAME_CODES[c % len(NAME_CODES)]) for c in case["inputs"]]
    seen = set()
    inits = []
    for c in case["inits"]:
        nm = NAME_CODES[c % len(NAME_CODES)]
        if nm and nm not in seen and not any(v.name == nm for v in ins):
            seen.add(nm)
            inits.append(ir.Value(name=nm, const_value=None))
    explicit_in = [v.name for v in ins]
    g = ir.Graph(ins, [], nodes=[], initializers=inits, name="g")
    for v, before in zip(ins, explicit_in):
        if before is not None and v.name != before:
            fails.append(("a-explicit-changed/ctor", f"input name {before!r} became {v.name!r}"))
    assigned_in_ctor = []
    for v, before in zip(ins, explicit_in):
        if before is None:
            if v.name in reg_values:
                fails.append(("a-collision/ctor", f"constructor assigned {v.name!r} twice"))
            assigned_in_ctor.append(v.name)
        reg_values.add(v.name)
    for v in inits:
        reg_values.add(v.name)
    all_nodes = []
    removed = []
    saw_generated_explicit = False
    auto_after = False
    renamed_live = moved_after_rename = False
    late_iface = False

    def make_nodes(specs):
        out = []
        for ncode, ocodes in specs:
            n = ir.Node("", "Op", [], num_outputs=len(ocodes), name=NAME_CODES[ncode % len(NAME_CODES)])
            for o, oc in zip(n.outputs, ocodes):
                o.name = NAME_CODES[oc % len(NAME_CODES)]
            out.append(n)
        return out

    def add(how, nodes, anchor_i, label):
        nonlocal saw_generated_explicit, auto_after
        before = [(n.name, [o.name for o in n.outputs]) for n in nodes]
        members = [x for x in g if not any(x is y for y in nodes)]  # (a move: the anchor is another member)
        try:
            if how == 0 or not members and how in (2, 3):
                for n in nodes:
                    g.append(n)
            elif how == 1:
                g.extend(nodes)
            elif how == 2:
                g.insert_before(members[anchor_i % len(members)], nodes)
            elif how == 3:
                g.insert_after(members[anchor_i % len(members)], nodes)
            else:
                raise Malformed()
        except Malformed:
            raise
        except Exception as e:
            fails.append((f"a-add-raised/{label}/{type(e).__name__}", f"{label} raised {type(e).__name__}: {e}"[:200]))
            return
        batch_nodes, batch_values = set(), set()
        for n, (bn, bouts) in zip(nodes, before):
            if bn is not None:
                if n.name != bn:
                    fails.append((f"a-explicit-changed/{label}", f"explicit node name {bn!r} became {n.name!r}"))
                if isinstance(bn, str) and bn.startswith("node_Op_"):
                    saw_generated_explicit = True
            else:
                if saw_generated_explicit:
                    auto_after = True
                if not n.name:
                    fails.append((f"a-unnamed/{label}", "node left without a name"))
                elif n.name in reg_nodes or n.name in batch_nodes:
                    fails.append((f"a-collision-node/{label}", f"auto-assigned node name {n.name!r} was already registered ({sorted(reg_nodes)})"[:300]))
                batch_nodes.add(n.name)
            for o, bo in zip(n.outputs, bouts):
                if bo is not None:
                    if o.name != bo:
                        fails.append((f"a-explicit-changed/{label}", f"explicit value name {bo!r} became {o.name!r}"))
                    if isinstance(bo, str) and bo.startswith("val_"):
                        saw_generated_explicit = True
                else:
                    if saw_generated_explicit:
                        auto_after = True
                    if not o.name:
                        fails.append((f"a-unnamed/{label}", "value left without a name"))
                    elif o.name in reg_values or o.name in batch_values:
                        fails.append((f"a-collision-value/{label}", f"auto-assigned value name {o.name!r} was already registered ({sorted(x for x in reg_values if x)})"[:300]))
                    batch_values.add(o.name)
        for n in nodes:
            reg_nodes.add(n.name)
            for o in n.outputs:
                reg_values.add(o.name)

    LABELS = ["append", "extend", "insert_before", "insert_after", "Node(graph=)"]
    for op in case["ops"]:
        if op[0] == "add":
            _, how, specs, anchor = op
            how = how % 5
            if how == 4:
                for ncode, ocodes in specs:
                    nm = NAME_CODES[ncode % len(NAME_CODES)]
                    try:
                        n = ir.Node("", "Op", [], num_outputs=len(ocodes), name=nm, graph=g)
                    except Exception as e:
                        fails.append((f"a-add-raised/ctor/{type(e).__name__}", str(e)[:200]))
                        continue
                    if nm is not None and n.name != nm:
                        fails.append(("a-explicit-changed/Node(graph=)", f"{nm!r} -> {n.name!r}"))
                    if nm is None:
                        if saw_generated_explicit:
                            auto_after = True
                        if n.name in reg_nodes:
                            fails.append(("a-collision-node/Node(graph=)", f"auto-assigned node name {n.name!r} was already registered"))
                    for o in n.outputs:
                        if o.name in reg_values:
                            fails.append(("a-collision-value/Node(graph=)", f"auto-assigned value name {o.name!r} was already registered"))
                        reg_values.add(o.name)
                    reg_nodes.add(n.name)
                    all_nodes.append(n)
            else:
                nodes = make_nodes(specs)
                add(how, nodes, anchor, LABELS[how])
                all_nodes.extend(nodes)
        elif op[0] == "remove":
            members = list(g)
            if members:
                n = members[op[1] % len(members)]
                g.remove(n)
                removed.append(n)
        elif op[0] == "readd":
            if removed:
                n = removed.pop(op[1] % len(removed))
                add(op[2] % 4, [n], op[3], "re-" + LABELS[op[2] % 4])
        elif op[0] == "rename":
            # an explicit name given after the object joined the graph: not registered by that (see ASSUMPTIONS) ...
            members = list(g)
            if members:
                n = members[op[1] % len(members)]
                nm = NAME_CODES[op[3] % len(NAME_CODES)]
                if nm:
                    if op[2] == 0 or not n.outputs:
                        n.name = nm
                    else:
                        o = n.outputs[(op[2] - 1) % len(n.outputs)]
                        if not any(x.name == nm for x in list(g.inputs) + list(g.initializers.values())):
                            o.name = nm
                    renamed_live = True
        elif op[0] == "iface":
            # a value handed to the graph as input or initializer registers its name like the ones given to the constructor
            nm = NAME_CODES[op[2] % len(NAME_CODES)]
            taken = {x.name for x in list(g.inputs) + list(g.initializers.values())} | {o.name for n in g for o in n.outputs}
            if nm and nm not in taken:
                v = ir.Value(name=nm)
                k = op[1] % 4
                if k == 0:
                    g.inputs.append(v)
                elif k == 1:
                    g.inputs.insert(0, v)
                elif k == 2:
                    g.initializers.add(v)
                else:
                    v.const_value = ir.tensor([1.0], name=nm)
                    g.register_initializer(v)
                if v.name != nm:
                    fails.append(("a-explicit-changed/interface", f"name {nm!r} became {v.name!r}"))
                reg_values.add(nm)
                if nm.startswith("val_"):
                    saw_generated_explicit = True
                late_iface = True
        elif op[0] == "move":
            # ... but handing the node to the graph again (a move inside the graph) registers the names it has then
            members = list(g)
            if len(members) >= 2:
                n = members[op[1] % len(members)]
                add(op[2], [n], op[3], "move-" + LABELS[op[2]])
                if renamed_live:
                    moved_after_rename = True
        else:
            raise Malformed()
        if fails:
            break
    return fails, (saw_generated_explicit and auto_after), ["mode_a"] + (["generated_looking_explicit"] if saw_generated_explicit else []) + (["moved_after_live_rename"] if moved_after_rename else []) + (["input_or_initializer_added_later"] if late_iface else [])


# ------------------------------------------------------------------------------------------------ mode b
def build_b(case):
    import onnx_ir as ir

    def build_graph_family(recs, gin, ginit, prefix, root_init=True):
        graph_parent = [None]
        node_graph, kids_of = [], []
        for i, rec in enumerate(recs):
            g, nsub = rec[0], rec[1]
            gi = g % len(graph_parent)
            depth, cur = 0, gi
            while graph_parent[cur] is not None:
                depth += 1
                cur = node_graph[graph_parent[cur]]
            if depth >= 2:
                nsub = 0
            node_graph.append(gi)
            kids = []
            for _ in range(nsub):
                graph_parent.append(i)
                kids.append(len(graph_parent) - 1)
            kids_of.append(kids)
        ng = len(graph_parent)
        graphs = []
        for gi in range(ng):
            ins = [ir.Value(name="tmp") for _ in (gin if gi == 0 else gin[:1])]
            graphs.append(ir.Graph(ins, [], nodes=[], name=f"{prefix}{gi}", opset_imports={"": 20}))
        nodes = []
        for i, rec in enumerate(recs):
            kids = kids_of[i]
            if len(kids) == 2 and (i + len(recs)) % 2 == 0:
                attrs = [ir.AttrGraphs("branches", [graphs[k] for k in kids])]  # both bodies in ONE list-of-graphs attribute
            else:
                attrs = [ir.AttrGraph(f"b{j}", graphs[k]) for j, k in enumerate(kids)]
            n = ir.Node("", "Op", [None] * len(rec[4]), attrs, num_outputs=len(rec[3]), name="tmp")
            graphs[node_graph[i]].append(n)
            nodes.append(n)

        def ancestors(g):
            out = [g]
            while graph_parent[g] is not None:
                g = node_graph[graph_parent[g]]
                out.append(g)
            return out

        for i, rec in enumerate(recs):
            vis = ancestors(node_graph[i])
            cands = [j for j in range(i) if node_graph[j] in vis]
            for slot, r in enumerate(rec[4]):
                if r < 0 or not cands:
                    gi_ = vis[(-r) % len(vis)] if r < 0 else vis[0]
                    if graphs[gi_].inputs:
                        nodes[i].replace_input_with(slot, graphs[gi_].inputs[0])
                    continue
                j = cands[r % len(cands)]
                nodes[i].replace_input_with(slot, nodes[j].outputs[r % len(nodes[j].outputs)])
        for gi in range(ng):
            lst = list(graphs[gi])
            if lst:
                graphs[gi].outputs.append(lst[-1].outputs[0])
        # initializers on the root graph (+ first nested graph)
        for k, nm in enumerate(ginit):
            if not root_init and ng == 1:
                break  # a function body owns no initializers; its nested graphs may
            tgt = graphs[k % ng] if root_init else graphs[1 + k % (ng - 1)]
            v = ir.Value(name=f"__init{k}", const_value=ir.tensor([1.0], name=f"__init{k}"))
            tgt.initializers.add(v)
        # now force the requested (possibly missing / duplicate) names
        for i, rec in enumerate(recs):
            nodes[i].name = rec[2]
            for o, nm in zip(nodes[i].outputs, rec[3]):
                o.name = nm
        for gi in range(ng):
            for v, nm in zip(graphs[gi].inputs, gin):
                v.name = nm
        k = 0
        for gi in range(ng):
            for v in list(graphs[gi].initializers.values()):
                want = ginit[k % len(ginit)] if ginit else None
                k += 1
                if want and want not in graphs[gi].initializers:
                    v.name = want
        return graphs, nodes, graph_parent, node_graph

    graphs, nodes, gp, ngr = build_graph_family(case["nodes"], case["gin"], case["ginit"], "g")
    model = ir.Model(graphs[0], ir_version=10)
    fgraphs = []
    if case["fn"]:
        fgraphs, fnodes, fgp, fngr = build_graph_family(case["fn"], case["fin"], case.get("finit") or [], "f", root_init=False)
        f = ir.Function("dom", "fn", graph=fgraphs[0], attributes=[])
        model.functions[f.identifier()] = f
    else:
        fgp, fngr = [None], []
    return model, (graphs, gp, ngr), (fgraphs, fgp, fngr)


def graph_values(g):
    """Values defined in graph g: inputs, initializers, node outputs (identity-deduplicated)."""
    out, seen = [], set()
    for v in list(g.inputs) + list(g.initializers.values()) + [o for n in g for o in n.outputs]:
        if id(v) not in seen:
            seen.add(id(v))
            out.append(v)
    return out


def run_b(case):
    import onnx_ir as ir
    from onnx_ir.passes.common import NameFixPass

    model, main, fn = build_b(case)
    fails = []
    families = [main] + ([fn] if fn[0] else [])
    # record originals
    orig = {}
    struct_before = _struct(families)
    for graphs, gp, ngr in families:
        for g in graphs:
            for v in graph_values(g) + list(g.outputs):
                orig.setdefault(id(v), (v, v.name))
            for n in g:
                orig.setdefault(id(n), (n, n.name))
    interesting = False
    fix = NameFixPass()
    try:
        res = fix(model)
    except Exception as e:
        import traceback

        tb = traceback.extract_tb(e.__traceback__)
        where = [f.name for f in tb if "onnx_ir" in f.filename][-1:] or ["?"]
        return [(f"b-raised/{type(e).__name__}@{where[0]}", f"NameFixPass raised {type(e).__name__}: {e}"[:300] + f" | case {case}"[:300])], True, ["mode_b"]

    def judge(orig, struct_before, pre):
        nonlocal interesting
        for graphs, gp, ngr in families:
            def anc(gi):
                out = []
                while gp[gi] is not None:
                    gi = ngr[gp[gi]]
                    out.append(gi)
                return out

            def desc(gi):
                return [k for k in range(len(graphs)) if gi in anc(k)]

            defined = [graph_values(g) for g in graphs]
            for gi, g in enumerate(graphs):
                vals = defined[gi]
                names = [v.name for v in vals]
                for v in vals + list(g.outputs):
                    if not v.name:
                        fails.append((pre + "-empty-value-name", f"value without name after the pass in {g.name}"))
                dup = {x for x in names if names.count(x) > 1}
                if dup:
                    fails.append((pre + "-duplicate-in-graph", f"graph {g.name} has duplicate value names {sorted(map(str, dup))}"))
                for a in anc(gi):
                    outer = {v.name for v in defined[a]}
                    clash = [nm for nm in names if nm in outer]
                    if clash:
                        fails.append((pre + "-shadows-outer", f"graph {g.name} value names {clash} also name values of enclosing graph {graphs[a].name}"))
                nn = [n.name for n in g]
                if any(not x for x in nn):
                    fails.append((pre + "-empty-node-name", f"node without name in {g.name}"))
                dn = {x for x in nn if nn.count(x) > 1}
                if dn:
                    fails.append((pre + "-duplicate-node-name", f"graph {g.name} duplicate node names {sorted(map(str, dn))}"))
                for k, v in g.initializers.items():
                    if v.name != k:
                        fails.append((pre + "-init-key", f"initializer key {k!r} vs name {v.name!r}"))
                # kept-if-unique
                related = [gi] + anc(gi) + desc(gi)
                for v in vals:
                    o = orig[id(v)][1]
                    if not o:
                        interesting = interesting or gi > 0 or graphs is not main[0]
                        continue
                    others = [orig[id(x)][1] for r in related for x in defined[r] if x is not v]
                    if o in others:
                        interesting = interesting or gi > 0 or graphs is not main[0]
                        continue
                    if v.name != o:
                        fails.append((pre + "-unique-name-not-kept/value", f"value originally {o!r} (unique along its scope chain) was renamed to {v.name!r} in {g.name}"))
                for n in g:
                    o = orig[id(n)][1]
                    if not o:
                        continue
                    others = [orig[id(x)][1] for x in g if x is not n]
                    if o in others:
                        continue
                    if n.name != o:
                        fails.append((pre + "-unique-name-not-kept/node", f"node originally {o!r} (unique in its graph) was renamed to {n.name!r}"))
        if _struct(families) != struct_before:
            fails.append((pre + "-structure-changed", "something other than names changed"))

    judge(orig, struct_before, "b")
    classes_b = ["mode_b"]
    again = case.get("again") or []
    if again and not fails:
        # the same pass OBJECT is applied a second time after names were disturbed again (a pass kept in a pipeline)
        allv = [v for graphs, gp, ngr in families for g in graphs for v in graph_values(g) if not v.is_initializer()]
        alln = [n for graphs, gp, ngr in families for g in graphs for n in g]
        for a_, b_ in again:
            if allv and a_ % 3 != 2:
                tgt, src = allv[a_ % len(allv)], allv[b_ % len(allv)]
                tgt.name = src.name if a_ % 3 == 0 else None
            elif alln:
                alln[a_ % len(alln)].name = alln[b_ % len(alln)].name
        orig2 = {}
        for graphs, gp, ngr in families:
            for g in graphs:
                for v in graph_values(g) + list(g.outputs):
                    orig2.setdefault(id(v), (v, v.name))
                for n in g:
                    orig2.setdefault(id(n), (n, n.name))
        struct2 = _struct(families)
        try:
            fix(model)
            judge(orig2, struct2, "b-second-run")
        except Exception as e:
            fails.append((f"b-second-run-raised/{type(e).__name__}", f"second application of the same NameFixPass object raised {type(e).__name__}: {e}"[:300]))
        classes_b.append("same_pass_object_applied_twice")
    seen, out = set(), []
    for b, m in fails:
        if b not in seen:
            seen.add(b)
            out.append((b, m + f" | case {case}"[:400]))
    return out, interesting, classes_b + (["nested_or_function_dup"] if interesting else [])


def _struct(families):
    """Names-erased structure: per graph the node sequence with op, arity, identity wiring."""
    ids = {}

    def num(x):
        if x is None:
            return None
        return ids.setdefault(id(x), len(ids))

    out = []
    for graphs, gp, ngr in families:
        for g in graphs:
            out.append(("G", [num(v) for v in g.inputs], [num(v) for v in g.outputs], [num(v) for v in g.initializers.values()],
                        [(n.op_type, [num(v) for v in n.inputs], [num(v) for v in n.outputs], sorted(n.attributes.keys())) for n in g]))
    return out


# ------------------------------------------------------------------------------------------------ mode c
def run_c(case):
    from onnx_ir import convenience as conv

    import onnx_ir as ir
    from vlib import invariants, snapshot
    from vlib import universe as U

    u = U.Universe(1)
    # make a few more initializers so that swaps/cycles inside one graph are possible
    g0, g1 = u.graphs[0], u.graphs[1]
    extra = []
    for k, nm in enumerate(["p", "q", "r"]):
        v = ir.Value(name=nm, const_value=u.tensor(k))
        (g0 if k < 2 else g1).initializers.add(v)
        extra.append(v)
    # an initializer entry whose tensor is not attached yet (data bound later): legal in the IR
    pend = ir.Value(name="pend", type=ir.TensorType(ir.DataType.FLOAT), shape=ir.Shape([2]))
    g0.initializers.add(pend)
    extra.append(pend)
    u.sweep()
    for kind, vi in case.get("pre", []):
        v = u.V(vi)
        try:
            if kind % 2 == 0:
                v.name = U.NAMES[vi % len(U.NAMES)]
            elif v.is_initializer() and v.graph is not None:
                # the same initializer is registered again (e.g. after its tensor was updated): allowed, changes nothing
                if kind % 4 == 1:
                    v.graph.register_initializer(v) if v.const_value is not None else v.graph.initializers.add(v)
                else:
                    v.graph.initializers[v.name] = v
        except Exception:
            pass
    u.sweep()
    inits = [v for g in u.graphs for v in g.initializers.values()]
    kind = case["kind"] % 4
    vals = []
    for i in case["vals"]:
        pool = inits if (kind in (0, 1) or i % 3 == 0) else u.values
        vals.append(pool[i % len(pool)])
    cur = [v.name for v in vals]
    alphabet = ["a", "b", "w", "p", "q", "r", "", "z1", "z2", "w_1", "x", "val_0", "n0"]
    if kind == 0:  # rotation (cycle / swap) of current names
        names = [n if isinstance(n, str) else "zz" for n in (cur[1:] + cur[:1])]
    elif kind == 1:  # permutation by reversal
        names = [n if isinstance(n, str) else "zz" for n in reversed(cur)]
    else:
        names = [alphabet[j % len(alphabet)] for j in case["names"]]
        if len(names) != len(vals) and sum(case["names"]) % 5 != 0:
            names = [names[j % len(names)] for j in range(len(vals))]
    before = snapshot.take(u)
    n_inits = len({id(v) for v in vals if v.is_initializer()})
    fails = []
    try:
        conv.rename_values(vals, names)
        exc = None
    except Exception as e:
        exc = e
    u.sweep()
    if exc is not None:
        after = snapshot.take(u)
        if after != before:
            fails.append((f"c-partial-rename/{type(exc).__name__}", f"rename_values({[v_ for v_ in cur]} -> {names}) raised {type(exc).__name__}({str(exc)[:80]}) but state changed: {snapshot.diff(before, after)}"[:600]))
    else:
        target = {}
        for v, nm in zip(vals, names):
            target.setdefault(id(v), (v, nm))
        for v, nm in target.values():
            if v.name != nm:
                fails.append(("c-target-name", f"after rename_values({cur} -> {names}) a value is named {v.name!r}, expected {nm!r}"))
                break
        errs = invariants.check_all(u)
        if errs:
            fails.append((f"c-invariant/{errs[0][0]}", f"after rename_values({cur} -> {names}): {errs[0][1]}"))
        # nothing else changed: erase names and compare
        if _erase_names(before) != _erase_names(snapshot.take(u)):
            fails.append(("c-other-change", f"rename_values({cur} -> {names}) changed something besides names/keys"))
    nontrivial = n_inits >= 2 and (kind in (0, 1) or exc is not None)
    return fails, nontrivial, ["mode_c", "raised" if exc is not None else "returned"]


def _erase_names(snap):
    out = []
    for rec in snap:
        if rec[0] == "V":
            out.append(rec[:1] + rec[2:4] + (rec[4][0] if rec[4] else None,) + rec[5:])
        elif rec[0] == "G":
            out.append(rec[:7] + (tuple(sorted(map(str, (x[1] for x in rec[7])))),) + rec[8:])
        elif rec[0] == "T":
            out.append(("T",))
        else:
            out.append(rec)
    return out


def execute(case):
    mode = case.get("mode")
    try:
        if mode == "a":
            fails, nt, classes = run_a(case)
        elif mode == "b":
            fails, nt, classes = run_b(case)
        elif mode == "c":
            fails, nt, classes = run_c(case)
        else:
            raise Malformed()
    except (Malformed, KeyError, IndexError, TypeError, ZeroDivisionError):
        return dict(failures=[], nontrivial=False, classes=["malformed"])
    seen, out = set(), []
    for b, m in fails:
        if b not in seen:
            seen.add(b)
            out.append((b, m))
    return dict(failures=out, nontrivial=nt, classes=classes)

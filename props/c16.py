"""C16 - symbolic dimensions compute, print and re-parse with integer semantics."""

from __future__ import annotations

import ast
import math
from fractions import Fraction

ID = "C16"
LEVEL = "exploration"
TECHNIQUE = (
    "property-based testing against a reference model: generated expression trees and grammar-derived "
    "strings, evaluated by the library and by an independent exact-rational evaluator (Python's own ast "
    "gives the reference reading of a string); round-trip (print -> parse, proto) and metamorphic "
    "(partial binding, simplify) relations"
)
LEVEL_TEXT = (
    "Generated exploration of expression trees (depth <= 5, all listed operators, int operands on either side) "
    "and of strings of the documented grammar, under generated positive bindings. Oracle = exact evaluation "
    "over fractions.Fraction; for strings the reference parse is CPython's ast."
)
TRUSTED = "fractions.Fraction arithmetic, CPython ast (reference precedence/associativity)"
RULE = (
    "mode 'ops': expression tree built through the SymbolicDim operator overloads (+ - * // / % neg, "
    "math.floor/ceil/trunc, min/max through the textual form) with int operands on either side where the "
    "overload exists; mode 'text': a string derived from the documented grammar (expr/term/power/unary/"
    "primary, functions max min floor mod, redundant parentheses and spaces). Bindings: positive ints 1..64, "
    "complete and split in two for partial evaluation. Checks: evaluate(full) == exact reference; "
    "evaluate(part1) then evaluate(part2) == evaluate(full); simplify() preserves it; SymbolicDim(d.value) "
    "(print->parse) preserves it; Shape.evaluate/Shape.simplify agree; evaluate under bindings restricted to "
    "free_symbols() is complete; value-info serde round trip preserves it. Division by zero anywhere in the "
    "reference makes the case undefined (skipped, counted). Non-trivial = >=3 operators of >=2 kinds (ops) or "
    ">=2 precedence levels (text). distinct = distinct case JSON."
)
ASSUMPTIONS = [
    "int // dim and int % dim are not generated: SymbolicDim defines no reflected overload for them",
    "sqrt and ** are generated in text mode only with results that stay rational (small literal exponents)",
    "bindings are positive integers (dimension sizes)",
]
CASE_TIMEOUT = 6  # SymPy's simplify() occasionally needs minutes on a nested floor/Mod/Max tree: inconclusive, not a verdict
BUDGET = {"quick": (16, 900), "thorough": (16, 20000)}

# (dimension names may coincide with the parser's function names: an identifier is a call only when '(' follows)
SYMS = ["N", "M", "batch", "a.b", "seq_len", "max", "floor", "mod", "größe", "批量", "Länge_2"]
# leaves built from a SymPy symbol (SymbolicDim accepts sympy.Expr): assumptions other than the parser's own
FLAVOURS = {"plain": {}, "integer": {"integer": True}, "posint": {"integer": True, "positive": True},
            "nonneg": {"integer": True, "nonnegative": True}}
SYMX = ["N", "M", "batch", "K"]
BIN = ["add", "sub", "mul", "floordiv", "truediv", "mod"]
RBIN = ["add", "sub", "mul", "truediv", "floordiv", "mod"]  # int on the left supported (// and % since repo fix: see DESIGN 4.1)


class Undefined(Exception):
    pass


class Malformed(Exception):
    pass


# ------------------------------------------------------------------------------------------------
def strategy(tier, phase):
    from hypothesis import strategies as st

    sym = st.one_of(
        st.sampled_from(SYMS).map(lambda s: ["sym", s]),
        st.sampled_from(SYMS).map(lambda s: ["sym", s]),
        st.tuples(st.sampled_from(SYMX), st.sampled_from(sorted(FLAVOURS))).map(lambda t: ["symx", t[0], t[1]]),
    )
    small = st.one_of(st.integers(1, 9), st.integers(1, 9), st.integers(-7, -1))  # int operands of either sign

    def extend(children):
        return st.one_of(
            st.tuples(st.sampled_from(BIN), children, children).map(list),
            st.tuples(st.sampled_from(BIN), children, small.map(lambda k: ["int", k])).map(list),
            st.tuples(st.sampled_from(RBIN), small.map(lambda k: ["int", k]), children).map(list),
            st.tuples(st.sampled_from(["neg", "floor", "ceil", "trunc"]), children).map(list),
            st.tuples(st.sampled_from(["min", "max"]), children, children).map(list),
            st.tuples(st.sampled_from(["min", "max"]), children, small.map(lambda k: ["int", k])).map(list),
        )

    # leaf-sized templates: rounding of a quotient whose sign is open, round((a - b) / k) and (a - b) // k, (a - b) % k,
    # so that negative fractions reach the rounding operators regularly without growing the expression
    other = st.one_of(sym, st.integers(1, 40).map(lambda k: ["int", k]))
    diff = st.tuples(st.just("sub"), sym, other).map(list)
    kk = st.integers(2, 7).map(lambda k: ["int", k])
    template = st.one_of(
        st.tuples(st.sampled_from(["floor", "ceil", "trunc", "trunc"]), st.tuples(st.just("truediv"), diff, kk).map(list)).map(list),
        st.tuples(st.sampled_from(["floordiv", "mod"]), diff, kk).map(list),
        # chained divisions whose second divisor is negative, of open sign, or a fraction: (a // k) // (b - c), a // k // -3 ...
        st.tuples(st.sampled_from(["floordiv", "floordiv", "mod", "truediv"]),
                  st.tuples(st.sampled_from(["floordiv", "floor", "mod"]), st.one_of(sym, st.tuples(st.just("truediv"), sym, kk).map(list)), kk).map(lambda t: list(t) if t[0] != "floor" else ["floor", ["truediv", t[1], t[2]]]),
                  st.one_of(diff, st.integers(-5, -1).map(lambda k: ["int", k]), st.tuples(st.just("truediv"), sym, kk).map(list))).map(list),
    )
    tree = st.recursive(st.one_of(sym, sym, sym, template), extend, max_leaves=10)
    size = st.one_of(st.integers(1, 4), st.integers(1, 64))  # small sizes often: differences change sign
    bind = st.fixed_dictionaries({s: size for s in sorted(set(SYMS) | set(SYMX))})
    ops_case = st.fixed_dictionaries({"mode": st.just("ops"), "tree": tree, "bind": bind})
    text_case = st.fixed_dictionaries({"mode": st.just("text"), "text": _text_strategy(), "bind": bind})
    return st.one_of(ops_case, text_case)


def _text_strategy():
    from hypothesis import strategies as st

    num = st.integers(0, 12).map(str)
    ident = st.sampled_from(SYMS)
    ws = st.sampled_from(["", "", " ", "  "])

    def paren(s):
        return st.tuples(ws, s, ws).map(lambda t: "(" + t[0] + t[1] + t[2] + ")")

    def extend(e):
        binop = st.tuples(e, ws, st.sampled_from(["+", "-", "*", "/", "//", "%", "+", "-", "*"]), ws, e).map("".join)
        power = st.tuples(e, ws, st.just("**"), ws, st.sampled_from(["2", "3", "0", "1", "2 ** 1", "-1"])).map("".join)
        unary = st.tuples(st.just("-"), ws, e).map("".join)
        call2 = st.tuples(st.sampled_from(["max", "min", "mod", "Max", "Min", "Mod"]), ws, e, ws, e).map(
            lambda t: f"{t[0]}({t[1]}{t[2]},{t[3]}{t[4]})"
        )
        call1 = st.tuples(st.just("floor"), e).map(lambda t: f"{t[0]}({t[1]})")
        return st.one_of(binop, binop, power, unary, call2, call1, paren(e))

    return st.recursive(st.one_of(num, ident, ident, ident, ident), extend, max_leaves=8)


# ------------------------------------------------------------------------------------------------
# reference evaluator over Fractions
def _fdiv(a, b):
    if b == 0:
        raise Undefined()
    return Fraction(a) / Fraction(b)


SEEN = set()  # value classes met by the reference evaluation of the current case


def ref_eval(tree, env):
    k = tree[0]
    if k in ("sym", "symx"):
        return Fraction(env[tree[1]])
    if k == "int":
        return Fraction(tree[1])
    if k in ("neg", "floor", "ceil", "trunc"):
        x = ref_eval(tree[1], env)
        if k != "neg" and x < 0 and x.denominator != 1:
            SEEN.add("rounding_of_negative_fraction" if k != "trunc" else "trunc_of_negative_fraction")
        return {"neg": lambda: -x, "floor": lambda: Fraction(math.floor(x)), "ceil": lambda: Fraction(math.ceil(x)),
                "trunc": lambda: Fraction(math.trunc(x))}[k]()
    a, b = ref_eval(tree[1], env), ref_eval(tree[2], env)
    if k == "add":
        return a + b
    if k == "sub":
        return a - b
    if k == "mul":
        return a * b
    if k == "truediv":
        return _fdiv(a, b)
    if k == "floordiv":
        if _fdiv(a, b) < 0:
            SEEN.add("floordiv_negative")
        return Fraction(math.floor(_fdiv(a, b)))
    if k == "mod":
        if b == 0:
            raise Undefined()
        if a < 0 or b < 0:
            SEEN.add("mod_negative_operand")
        return a - b * math.floor(a / b)
    if k == "min":
        return min(a, b)
    if k == "max":
        return max(a, b)
    if k == "pow":
        if b.denominator != 1 or abs(b) > 12:
            raise Undefined()
        if a == 0 and b < 0:
            raise Undefined()
        return a ** int(b)
    raise Malformed(k)


def count_ops(tree, acc):
    if tree[0] in ("sym", "symx", "int"):
        return
    acc.append(tree[0])
    for c in tree[1:]:
        count_ops(c, acc)


def has_sym(tree):
    if tree[0] in ("sym", "symx"):
        return True
    if tree[0] == "int":
        return False
    return any(has_sym(c) for c in tree[1:])


# library expression from tree via overloads
def build(ir, tree):
    k = tree[0]
    if k == "sym":
        return ir.SymbolicDim(tree[1])
    if k == "symx":
        import sympy

        if tree[1] not in SYMX or tree[2] not in FLAVOURS:
            raise Malformed("symx")
        return ir.SymbolicDim(sympy.Symbol(tree[1], **FLAVOURS[tree[2]]))
    if k == "int":
        return int(tree[1])
    if k in ("neg", "floor", "ceil", "trunc"):
        x = build(ir, tree[1])
        if isinstance(x, int):
            raise Malformed("unary on int")
        return {"neg": lambda: -x, "floor": lambda: math.floor(x), "ceil": lambda: math.ceil(x), "trunc": lambda: math.trunc(x)}[k]()
    a, b = build(ir, tree[1]), build(ir, tree[2])
    if isinstance(a, int) and isinstance(b, int):
        raise Malformed("int op int")
    if isinstance(a, int) and k not in RBIN and k not in ("min", "max"):
        raise Malformed("no reflected overload")
    if k == "add":
        return a + b
    if k == "sub":
        return a - b
    if k == "mul":
        return a * b
    if k == "truediv":
        return a / b
    if k == "floordiv":
        return a // b
    if k == "mod":
        return a % b
    if k in ("min", "max"):
        sa = a.value if not isinstance(a, int) else str(a)
        sb = b.value if not isinstance(b, int) else str(b)
        return ir.SymbolicDim(f"{k}({sa}, {sb})")
    raise Malformed(k)


# reference reading of a string: CPython ast -> tree
def text_to_tree(text):
    try:
        node = ast.parse(text.strip(), mode="eval").body
    except (SyntaxError, ValueError, RecursionError, MemoryError):
        raise Malformed("python cannot parse")
    return _conv(node)


def _conv(n):
    if isinstance(n, ast.Constant) and isinstance(n.value, int) and not isinstance(n.value, bool):
        return ["int", n.value]
    if isinstance(n, ast.Name):
        return ["sym", n.id]
    if isinstance(n, ast.Attribute):
        base = _conv(n.value)
        if base[0] != "sym":
            raise Malformed("attr")
        return ["sym", base[1] + "." + n.attr]
    if isinstance(n, ast.UnaryOp) and isinstance(n.op, ast.USub):
        return ["neg", _conv(n.operand)]
    if isinstance(n, ast.BinOp):
        m = {ast.Add: "add", ast.Sub: "sub", ast.Mult: "mul", ast.Div: "truediv", ast.FloorDiv: "floordiv",
             ast.Mod: "mod", ast.Pow: "pow"}
        if type(n.op) not in m:
            raise Malformed("op")
        return [m[type(n.op)], _conv(n.left), _conv(n.right)]
    if isinstance(n, ast.Call) and isinstance(n.func, ast.Name):
        f = n.func.id.lower()
        args = [_conv(a) for a in n.args]
        if f in ("max", "min", "mod") and len(args) == 2:
            return [f, args[0], args[1]]
        if f == "floor" and len(args) == 1:
            return ["floor", args[0]]
    raise Malformed("node")


# ------------------------------------------------------------------------------------------------
def _as_fraction(res):
    """Library evaluation result -> Fraction (ints as ints; residual SymbolicDim must be a number)."""
    import sympy

    import onnx_ir as ir

    if isinstance(res, bool):
        raise ValueError("bool")
    if isinstance(res, int):
        return Fraction(res), "int"
    if isinstance(res, ir.SymbolicDim):
        e = res._expr  # parsed from its string form when not cached
        if e is None:
            raise ValueError("unknown dim")
        if e.free_symbols:
            raise ValueError(f"residual still has symbols: {res.value}")
        r = sympy.nsimplify(e) if not e.is_Rational else e
        if not r.is_Rational:
            raise ValueError(f"residual not rational: {res.value}")
        return Fraction(int(r.p), int(r.q)), "dim"
    raise ValueError(f"unexpected result type {type(res).__name__}")


def execute(case):
    import onnx_ir as ir

    mode = case.get("mode")
    SEEN.clear()
    bind = case.get("bind") or {}
    if any((not isinstance(v, int)) or v < 1 for v in bind.values()):
        return dict(failures=[], nontrivial=False, classes=["malformed"])
    fails = []
    classes = [mode]
    try:
        if mode == "ops":
            tree = case["tree"]
            ops = []
            count_ops(tree, ops)
            nontrivial = len(ops) >= 3 and len(set(ops)) >= 2
            try:
                d = build(ir, tree)
            except Malformed:
                raise
            except RecursionError:
                raise Malformed("deep")
            except Exception as e:
                try:
                    ref_eval(tree, {k: bind.get(k, 1) for k in _syms(tree)})
                except (Undefined, OverflowError, ZeroDivisionError):
                    return dict(failures=[], nontrivial=False, classes=classes + ["undefined"])
                fails.append((f"build-exc/ops/{type(e).__name__}", f"building {tree} raised {type(e).__name__}: {e}"[:300]))
                return dict(failures=fails, nontrivial=nontrivial, classes=classes)
            if isinstance(d, int):
                raise Malformed("int")
            ref_tree = tree
            origin = "ops"
        elif mode == "text":
            text = case["text"]
            ref_tree = text_to_tree(text)
            if not has_sym(ref_tree):
                classes.append("text_without_symbol")
            ops = []
            count_ops(ref_tree, ops)
            levels = set()
            for o in ops:
                levels.add({"add": 1, "sub": 1, "mul": 2, "truediv": 2, "floordiv": 2, "mod": 2, "pow": 4, "neg": 3}.get(o, 5))
            nontrivial = len(levels) >= 2
            origin = "text"
            # undefined texts (division by zero, power towers beyond the reference's range) are skipped before
            # the library sees them: SymPy evaluates 2**3**3**3 eagerly at parse time, which takes minutes
            try:
                ref_eval(ref_tree, {k: bind.get(k, 1) for k in _syms(ref_tree)})
            except (Undefined, OverflowError, ZeroDivisionError):
                return dict(failures=[], nontrivial=False, classes=classes + ["undefined"])
            try:
                d = ir.SymbolicDim(text)
                d._expr  # force the parse
            except RecursionError:
                raise Malformed("deep")
            except Exception as e:
                # every string of the documented grammar must parse - unless it divides by zero
                try:
                    ref_eval(ref_tree, {k: bind.get(k, 1) for k in _syms(ref_tree)})
                except (Undefined, OverflowError, ZeroDivisionError):
                    return dict(failures=[], nontrivial=False, classes=classes + ["undefined"])
                fails.append((f"text-parse-exc/{type(e).__name__}", f"SymbolicDim({text!r})._expr raised {type(e).__name__}: {e}"[:300]))
                return dict(failures=fails, nontrivial=nontrivial, classes=classes)
        else:
            raise Malformed("mode")
        for s in _syms(ref_tree):
            if s not in bind:
                raise Malformed("unbound")
        try:
            ref = ref_eval(ref_tree, bind)
        except Undefined:
            return dict(failures=[], nontrivial=False, classes=classes + ["undefined"])
        except (OverflowError, ZeroDivisionError):
            return dict(failures=[], nontrivial=False, classes=classes + ["undefined"])
    except (Malformed, KeyError, IndexError, TypeError):
        return dict(failures=[], nontrivial=False, classes=["malformed"])

    if mode == "ops" and '"symx"' in __import__("json").dumps(case["tree"]):
        classes.append("sympy_symbol_leaf")
    desc = case.get("text") if mode == "text" else f"tree {case['tree']} printed as {d.value!r}"

    def check(label, fn):
        try:
            got, kind = _as_fraction(fn())
        except RecursionError:
            return
        except Exception as e:
            if "simplify" in label and (_raised_inside_sympy_simplify(e) or _sympy_simplify_raises(d, type(e))):
                # SymbolicDim.simplify is sympy.simplify applied to the dimension's expression; when that call itself
                # fails on an expression that evaluates correctly, nothing was simplified and no evaluation changed -
                # the statement asks no more of simplification.  Counted, not a verdict.
                classes.append("sympy_simplify_raises_" + type(e).__name__)
                return
            fails.append((f"{label}-exc/{origin}/{type(e).__name__}", f"{label} on {desc} with {bind}: {type(e).__name__}: {e}"[:400]))
            return
        if got != ref:
            if _pure_sympy_disagrees(ref_tree, bind, ref, got, label):
                # SymPy alone (no onnx_ir code) already computes this tree wrongly: upstream root cause
                fails.append((f"sympy-upstream/{_shape_of(ref_tree, d)}", f"{label} on {desc} with {bind}: library {got} != exact {ref}; plain SymPy with positive integer symbols gives the same wrong value"[:400]))
                return
            fails.append((f"{label}/{origin}/{_shape_of(ref_tree, d)}", f"{label} on {desc} with {bind}: library {got} != exact {ref}"[:400]))
        elif ref.denominator == 1 and kind != "int":
            fails.append((f"{label}-int-type/{origin}", f"{label} on {desc}: integer value returned as SymbolicDim"))

    check("evaluate", lambda: d.evaluate(bind))
    names = sorted(bind)
    p1 = {k: bind[k] for k in names[::2]}
    p2 = {k: bind[k] for k in names[1::2]}

    def partial():
        r = d.evaluate(p1)
        if isinstance(r, int):
            return r
        return r.evaluate(p2)

    check("partial", partial)

    def partial_reparsed():
        r = d.evaluate(p1)
        if isinstance(r, int):
            return r
        return ir.SymbolicDim(r.value).evaluate(p2)

    check("partial-reparsed", partial_reparsed)
    n_ops = len(ops)
    if n_ops <= 6:  # SymPy's simplify() needs seconds to minutes on larger floor/Abs/sign/Mod trees
        check("simplify", lambda: d.simplify().evaluate(bind))
    check("reparse", lambda: ir.SymbolicDim(d.value).evaluate(bind))

    def _ev(x):
        return x if isinstance(x, int) else x.evaluate(bind)

    check("shape-evaluate", lambda: ir.Shape([d, 3]).evaluate(bind)[0])

    def shape_partial():
        r = ir.Shape([d, 3, d]).evaluate(p1)
        r = r.evaluate(p2)
        if r[0] != r[2]:
            raise ValueError(f"two equal dimensions of one shape evaluate differently: {r}")
        return r[0]

    check("shape-partial", shape_partial)

    def shape_edited_after_queries():
        # a history on one Shape object: queried first, then a dimension is assigned, then queried again
        sh = ir.Shape([7, ir.SymbolicDim("zz_other"), 3])
        sh.free_symbols()
        sh.evaluate({"zz_other": 2})
        sh[0] = d
        if set(sh.free_symbols()) != set(d.free_symbols()) | {"zz_other"}:
            raise ValueError(f"free_symbols() after shape[0] = d: {sorted(sh.free_symbols())}")
        return sh.evaluate(dict(bind, zz_other=2))[0]

    check("shape-evaluate-after-setitem", shape_edited_after_queries)
    if n_ops <= 4:
        check("shape-simplify", lambda: _ev(ir.Shape([3, d]).simplify()[1]))

    def free_restricted():
        # the symbols the dimension reports as free are exactly the ones a binding has to cover
        fs = d.free_symbols()
        extra = set(fs) - _syms(ref_tree)
        if extra:
            raise ValueError(f"free_symbols() reports {sorted(extra)} which the expression never mentions")
        if set(ir.Shape([d, 1]).free_symbols()) != set(fs):
            raise ValueError("Shape.free_symbols() differs from the dimension's")
        return d.evaluate({k: bind[k] for k in fs})

    check("free-symbols", free_restricted)
    try:
        constant = not d.free_symbols()
    except Exception:
        constant = False
    if constant:
        # a dimension without free symbols (symbols cancelled, or constant text) folds to its integer under ANY binding,
        # the empty one included - at dimension and at shape level
        classes.append("constant_dimension")
        check("evaluate-empty-bindings", lambda: d.evaluate({}))
        check("shape-evaluate-empty-bindings", lambda: ir.Shape([d, 3]).evaluate({})[0])

    def serde_rt():
        from onnx_ir import serde

        v = ir.Value(name="x", type=ir.TensorType(ir.DataType.FLOAT), shape=ir.Shape([d, 2]))
        proto = serde.serialize_value(v)
        v2 = serde.deserialize_value_info_proto(proto, None)
        d2 = v2.shape[0]
        if isinstance(d2, int):
            return d2
        return d2.evaluate(bind)

    check("serde", serde_rt)
    if ref.denominator != 1:
        classes.append("non_integer_value")
    classes.extend(sorted(SEEN))
    return dict(failures=_dedupe(fails), nontrivial=nontrivial, classes=classes)


def _pure_sympy(tree, syms):
    """The same expression built with SymPy alone, mirroring how build() obtains it: operator by operator, and for
    min/max through the textual form - i.e. every symbol below a min/max node is re-read as a positive integer."""
    import sympy

    k = tree[0]
    if k == "sym":
        return syms.setdefault(tree[1], sympy.Symbol(tree[1], integer=True, positive=True))
    if k == "symx":
        return syms.setdefault((tree[1], tree[2]), sympy.Symbol(tree[1], **FLAVOURS[tree[2]]))
    if k == "int":
        return sympy.Integer(tree[1])
    if k in ("neg", "floor", "ceil", "trunc"):
        x = _pure_sympy(tree[1], syms)
        return {"neg": lambda: -x, "floor": lambda: sympy.floor(x), "ceil": lambda: sympy.ceiling(x),
                "trunc": lambda: sympy.sign(x) * sympy.floor(sympy.Abs(x))}[k]()
    a, b = _pure_sympy(tree[1], syms), _pure_sympy(tree[2], syms)
    if k in ("min", "max"):
        def reread(e):
            rep = {}
            for sy in e.free_symbols:
                rep[sy] = syms.setdefault(str(sy), sympy.Symbol(str(sy), integer=True, positive=True))
            return e.xreplace(rep).doit() if rep else e
        a, b = reread(a), reread(b)
    return {"add": lambda: a + b, "sub": lambda: a - b, "mul": lambda: a * b, "truediv": lambda: a / b,
            "floordiv": lambda: sympy.floor(a / b), "mod": lambda: sympy.Mod(a, b), "min": lambda: sympy.Min(a, b),
            "max": lambda: sympy.Max(a, b), "pow": lambda: a ** b}[k]()


def _raised_inside_sympy_simplify(e):
    """True iff the exception of a simplify clause was raised by SymPy / mpmath code itself (innermost frame theirs).  (Calling sympy.simplify a second time to see whether it raises
    again is not reliable: SymPy's global cache makes the outcome depend on what the process simplified before.)"""
    import traceback

    frames = traceback.extract_tb(e.__traceback__)
    # (also while the simplified expression is evaluated: sympy.simplify may return a Piecewise whose dead branch divides by
    # zero - sign(x) rewritten as x/Abs(x) - and whether SymPy touches that branch varies from run to run)
    return bool(frames) and ("/sympy/" in frames[-1].filename or "/mpmath/" in frames[-1].filename)


def _sympy_simplify_raises(d, exc_type):
    """True iff sympy.simplify, called directly on the expression the dimension holds, raises the same exception."""
    import sympy

    try:
        sympy.simplify(d._expr)
    except exc_type:
        return True
    except Exception:
        return False
    return False


def _pure_sympy_disagrees(tree, bind, ref, got=None, label="evaluate"):
    """True iff SymPy by itself (no onnx_ir code: same symbols, same substitution sequence as the clause `label`
    uses) does not give `ref` - and, when the library's value is known, gives that same wrong value."""
    import sympy

    def frac(v):
        v = sympy.nsimplify(v)
        if not v.is_Rational:
            return None
        return Fraction(int(v.p), int(v.q))

    try:
        syms = {}
        e = _pure_sympy(tree, syms)
        full = {sym: bind[str(sym)] for sym in set(syms.values()) | set(e.free_symbols)}
        names = sorted(bind)
        first = set(names[::2])
        s1 = {sym: v for sym, v in full.items() if str(sym) in first}
        s2 = {sym: v for sym, v in full.items() if str(sym) not in first}
        values = [frac(e.subs(full))]
        if label.startswith(("partial", "shape-partial")):
            values.append(frac(e.subs(s1).subs(s2)))
        if label.startswith(("simplify", "shape-simplify")):
            values.append(frac(sympy.simplify(e).subs(full)))
        wrong = [v for v in values if v is not None and v != ref]
        if got is not None:
            return any(v == got for v in wrong)
        return bool(wrong)
    except Exception:
        return False


PRIORITY = ["pow", "trunc", "ceil", "floor", "mod", "floordiv", "truediv", "min", "max", "neg", "mul", "sub", "add"]


def _shape_of(tree, d):
    """Coarse bucket detail: the rarest operator kind involved."""
    ops = []
    count_ops(tree, ops)
    for k in PRIORITY:
        if k in ops:
            return k
    return "leaf"


def _syms(tree):
    if tree[0] in ("sym", "symx"):
        return {tree[1]}
    if tree[0] == "int":
        return set()
    out = set()
    for c in tree[1:]:
        out |= _syms(c)
    return out


def _dedupe(fails):
    seen, out = set(), []
    for b, m in fails:
        if b not in seen:
            seen.add(b)
            out.append((b, m))
    return out


def selftest():
    env = {"N": 7, "M": 3}
    assert ref_eval(["floordiv", ["neg", ["sym", "N"]], ["sym", "M"]], env) == -3
    assert ref_eval(["mod", ["neg", ["sym", "N"]], ["sym", "M"]], env) == 2
    assert ref_eval(["trunc", ["truediv", ["neg", ["sym", "N"]], ["int", 2]]], env) == -3
    assert ref_eval(text_to_tree("-N**2"), env) == -49
    assert ref_eval(text_to_tree("2**3**2"), env) == 512
    assert ref_eval(text_to_tree("N - M - 1"), env) == 3
    assert ref_eval(text_to_tree("N / M * 3"), env) == 7

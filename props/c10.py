"""C10 - external tensor reads never escape the model directory (fail closed)."""

from __future__ import annotations

import io
import os
import pathlib
import shutil
import tempfile

ID = "C10"
LEVEL = "exploration"
TECHNIQUE = (
    "property-based security testing with an independent oracle: generated sandbox trees (files, sub-directories, "
    "symlinks in/out, directory symlinks, hard links, prefix-sibling directories, canary files outside) x generated "
    "location strings x base-directory spellings x every read entry point; a successful read is accepted only if "
    "pathlib resolution puts the file inside the resolved base and it is a singly linked regular file"
)
LEVEL_TEXT = (
    "Generated exploration of path/link topologies. The oracle is one-directional exactly like the statement: bytes "
    "returned => resolved target inside the resolved base, regular, st_nlink==1 and bytes are that file's bytes; it is "
    "computed with pathlib.resolve()/is_relative_to, independently of the library's three-layer check."
)
TRUSTED = "pathlib/os.stat semantics of the host kernel; unique canary contents"
RULE = (
    "case = location components from {., .., names, sub-dirs, '', absolute roots, link names, trailing separators} + "
    "base spelling {absolute, relative to cwd, trailing '/', via symlinked dir, with '..', '.'} + entry point {numpy, "
    "__array__, tobytes, tofile(BytesIO), tofile(file), LazyTensor wrapper, load_to_model, ir.save of a model holding the "
    "tensor} ; or mode 'load': a model file referencing such a location is written, cwd changed, and ir.load() is given "
    "{bare name, ./name, relative with .., absolute, via symlinked dir, via '<symlinked dir>/..' next to a decoy directory}. Non-trivial = the location leaves the base "
    "lexically or through a link, or the base spelling is not a normalised absolute path. distinct = case JSON."
)
ASSUMPTIONS = [
    "TOCTOU races, FIFOs and device files are excluded (documented limitation in docs/security.md)",
    "an empty base_dir (programmatic construction) disables containment by design and is not generated, except through ir.load where the model's directory must be used",
]
BUDGET = {"quick": (16, 350), "thorough": (16, 8000)}

COMPONENTS = [".", "..", "in.bin", "sub", "sub/in2.bin", "", "link_in", "link_out", "dlink_in", "dlink_out", "hard_in", "hard_out",
              "nope.bin", "..", "../outside", "canary.bin", "../base_evil", "evil.bin", "dirfile", "in.bin/", "sub/..", "ABS_OUT", "ABS_IN", "ABS_BASE",
              # '..' right after a directory symlink: lexical normalisation and the file system disagree about where this leads
              "dlink_out/..", "dlink_out/../canary.bin", "dlink_in/..", "dlink_in/../in.bin", "dlink_out/../base/in.bin", "dlink_out/odir/../canary.bin",
              # symbolic links that stay inside the base but end at a hard-linked file, and chains of links
              "link_hard_in", "link_hard_out", "link_chain", "link_chain_hard", "sub/link_up_hard", "dlink_in/link_up_hard",
              # the sibling directory whose name has the base's name as a prefix, reached directly and through links
              "../base_evil/evil.bin", "link_evil", "dlink_evil/evil.bin", "sub/../../base_evil/evil.bin",
              "in2.bin", "sub/../in.bin", "swap.bin", "sub/../swap.bin",
              # (inside the decoy directory `work`: a directory link into base/sub - reached when the base spelling leads there)
              "into_sub/in2.bin", "into_sub/../in.bin"]
# "abs_sub": the base is the sub-directory base/sub, so that the rest of base/ lies outside
BASES = ["abs", "rel", "abs_slash", "via_symlink", "dotdot", "dot", "rel_dotslash", "abs_unnorm", "abs_sub"]
ENTRIES = ["numpy", "__array__", "tobytes", "tofile_bytesio", "tofile_file", "lazy", "load_to_model", "save"]
# where the external tensor sits in the loaded model
WHERES = ["main_initializer", "subgraph_initializer", "depth2_subgraph_initializer", "constant_attr_main", "constant_attr_subgraph",
          "constant_attr_depth2", "constant_attr_function", "tensors_attr_subgraph", "function_attr_default"]
PRE = ["none", "numpy", "tobytes", "__array__", "numpy_then_release"]
HARMLESS = b"HARMLESS" * 2
LOADS = ["bare", "dot_slash", "rel_dotdot", "absolute", "via_symlink_dir", "rel_subdir", "symlink_dir_dotdot_abs", "symlink_dir_dotdot_rel",
         # the model file itself is a symbolic link whose target lies in the decoy directory (content-addressed cache layout)
         "model_file_symlink", "model_file_symlink_rel"]
FOCUS = [(["swap.bin"], "abs"), (["sub/../swap.bin"], "abs"), (["..", "in.bin"], "abs_sub"), (["..", "swap.bin"], "abs_sub"), (["in.bin"], "abs"),
         (["sub/in2.bin"], "via_symlink"), (["into_sub/in2.bin"], "via_symlink"), (["in.bin"], "via_symlink")]
SWAPS = ["none", "symlink_out", "hardlink_out", "symlink_in", "repoint_base_link"]


def strategy(tier, phase):
    from hypothesis import strategies as st

    comp = st.integers(0, len(COMPONENTS) - 1)
    read = st.fixed_dictionaries({"mode": st.just("read"), "loc": st.lists(comp, min_size=1, max_size=4), "base": st.integers(0, len(BASES) - 1),
                                  "entry": st.integers(0, len(ENTRIES) - 1), "offset": st.sampled_from([0, 0, 2]),
                                  "pre": st.sampled_from([0, 0, 1, 2, 3, 4]),
                                  # history in one process: earlier reads (each judged like the main one), a change of the file
                                  # system between them and the main read, and further reads of the same tensor object afterwards
                                  # a warm-up is [location components, base, entry] or ["twin", variant, entry]: the main read's own
                                  # location and base (variant 0), or the same joined path string split differently between base
                                  # and location (variant 1: what a string was accepted as under one base says nothing under another)
                                  "warm": st.lists(st.one_of(st.tuples(st.lists(comp, min_size=1, max_size=3), st.integers(0, len(BASES) - 1), st.integers(0, 4)).map(list),
                                                             st.tuples(st.just("twin"), st.integers(0, 1), st.integers(0, 4)).map(list)), max_size=2),
                                  # focus: the main read aims at a file that the history can make forbidden (swap.bin) or that lies
                                  # just outside a deeper base
                                  "focus": st.sampled_from([None, None, None, 0, 1, 2, 3, 4, 5, 6, 7]),
                                  "swap": st.sampled_from([0, 0, 0, 1, 2, 3, 4]),
                                  "again": st.lists(st.integers(0, 4), max_size=2)})
    load = st.fixed_dictionaries({"mode": st.just("load"), "loc": st.lists(comp, min_size=1, max_size=4), "how": st.integers(0, len(LOADS) - 1),
                                  "entry": st.integers(0, 4), "offset": st.sampled_from([0, 2]), "where": st.integers(0, len(WHERES) - 1),
                                  "again": st.lists(st.integers(0, 4), max_size=2)})
    return st.one_of(read, read, load)


def make_tree(root):
    """root/base (inside), root/base_evil, root/outside; returns dict of canaries."""
    base = os.path.join(root, "base")
    os.makedirs(os.path.join(base, "sub"))
    os.makedirs(os.path.join(base, "dirfile"))
    os.makedirs(os.path.join(root, "base_evil"))
    os.makedirs(os.path.join(root, "outside", "odir"))
    files = {
        os.path.join(base, "in.bin"): b"INSIDE-0" * 2,
        os.path.join(base, "sub", "in2.bin"): b"INSIDE-1" * 2,
        os.path.join(root, "outside", "canary.bin"): b"CANARY-O" * 2,
        os.path.join(root, "outside", "odir", "deep.bin"): b"CANARY-D" * 2,
        os.path.join(root, "base_evil", "evil.bin"): b"CANARY-E" * 2,
        os.path.join(root, "canary.bin"): b"CANARY-R" * 2,
        os.path.join(base, "swap.bin"): b"INSIDE-S" * 2,
    }
    for p, data in files.items():
        with open(p, "wb") as f:
            f.write(data)
    os.symlink("in.bin", os.path.join(base, "link_in"))
    os.symlink(os.path.join("..", "outside", "canary.bin"), os.path.join(base, "link_out"))
    os.symlink("sub", os.path.join(base, "dlink_in"))
    os.symlink(os.path.join("..", "outside"), os.path.join(base, "dlink_out"))
    # hard links: inside->inside and outside->inside
    with open(os.path.join(base, "hsrc.bin"), "wb") as f:
        f.write(b"HARDLNK0" * 2)
    os.link(os.path.join(base, "hsrc.bin"), os.path.join(base, "hard_in"))
    os.link(os.path.join(root, "outside", "odir", "deep.bin"), os.path.join(base, "hard_out"))
    os.symlink("base", os.path.join(root, "base_link"))
    os.symlink(os.path.join("..", "base_evil", "evil.bin"), os.path.join(base, "link_evil"))
    os.symlink(os.path.join("..", "base_evil"), os.path.join(base, "dlink_evil"))
    os.symlink("hard_in", os.path.join(base, "link_hard_in"))
    os.symlink("hard_out", os.path.join(base, "link_hard_out"))
    os.symlink("link_in", os.path.join(base, "link_chain"))
    os.symlink("link_hard_out", os.path.join(base, "link_chain_hard"))
    os.symlink(os.path.join("..", "hard_out"), os.path.join(base, "sub", "link_up_hard"))
    # a decoy directory next to the base: it holds data files of the same names, and a directory symlink into the base,
    # so that '<decoy>/into_sub/..' is the base for the file system but the decoy for a lexical normalisation
    work = os.path.join(root, "work")
    os.makedirs(os.path.join(work, "sub"))
    for rel, data in (("in.bin", b"CANARY-W" * 2), (os.path.join("sub", "in2.bin"), b"CANARY-X" * 2)):
        with open(os.path.join(work, rel), "wb") as f:
            f.write(data)
    os.symlink(os.path.join("..", "base", "sub"), os.path.join(work, "into_sub"))
    return base


def location_of(case, root, base):
    parts = []
    for i in case["loc"]:
        c = COMPONENTS[i % len(COMPONENTS)]
        if c == "ABS_OUT":
            c = os.path.join(root, "outside", "canary.bin")
        elif c == "ABS_IN":
            c = os.path.join(base, "in.bin")
        elif c == "ABS_BASE":
            c = base
        parts.append(c)
    loc = parts[0]
    for p in parts[1:]:
        loc = loc + "/" + p if not p.startswith("/") else p if len(case["loc"]) % 2 else loc + "/" + p
    return loc


def base_spelling(kind, root, base):
    k = BASES[kind % len(BASES)]
    if k == "abs":
        return base
    if k == "rel":
        return os.path.relpath(base, os.getcwd())
    if k == "abs_slash":
        return base + "/"
    if k == "via_symlink":
        return os.path.join(root, "base_link")
    if k == "dotdot":
        return os.path.join(base, "sub", "..")
    if k == "dot":
        return "."
    if k == "rel_dotslash":
        return "./" + os.path.relpath(base, os.getcwd())
    if k == "abs_sub":
        return os.path.join(base, "sub")
    return base.replace("/base", "//base/./")


def oracle_allowed(base_dir, location):
    """Independent judgement: may bytes of join(base, location) be returned?  -> (allowed, resolved path)."""
    try:
        rb = pathlib.Path(base_dir).resolve(strict=False)
        full = pathlib.Path(os.path.join(base_dir, location))
        rp = full.resolve(strict=False)
    except (OSError, RuntimeError):
        return False, None
    inside = rp == rb or rp.is_relative_to(rb)
    try:
        st = os.stat(rp)
    except OSError:
        return False, rp
    import stat as _stat

    ok = inside and _stat.S_ISREG(st.st_mode) and st.st_nlink == 1
    return ok, rp


def read_via(ir, tensor, entry, tmp, model_holder=None):
    e = ENTRIES[entry % len(ENTRIES)]
    if e == "numpy":
        return tensor.numpy().tobytes()
    if e == "__array__":
        import numpy as np

        return np.asarray(tensor).tobytes()
    if e == "tobytes":
        return bytes(tensor.tobytes())
    if e == "tofile_bytesio":
        b = io.BytesIO()
        tensor.tofile(b)
        return b.getvalue()
    if e == "tofile_file":
        p = os.path.join(tmp, "dst.bin")
        with open(p, "wb") as f:
            tensor.tofile(f)
        return open(p, "rb").read()
    if e == "lazy":
        lt = ir.LazyTensor(lambda: tensor, tensor.dtype, tensor.shape, name="lz")
        return bytes(lt.tobytes())
    v = ir.Value(name="w", const_value=tensor)
    g = ir.Graph([], [], nodes=[], initializers=[v], name="g", opset_imports={"": 20})
    m = ir.Model(g, ir_version=10)
    if e == "load_to_model":
        from onnx_ir import external_data

        external_data.load_to_model(m)
        return bytes(v.const_value.tobytes())
    # save: serialization to raw bytes through a different external file
    out = os.path.join(tmp, "saved")
    os.makedirs(out, exist_ok=True)
    ir.save(m, os.path.join(out, "m.onnx"), external_data="m.data", size_threshold_bytes=0)
    return open(os.path.join(out, "m.data"), "rb").read()


def execute(case):
    import onnx

    import onnx_ir as ir

    try:
        mode = case["mode"]
        _ = case["loc"], case["entry"]
    except (KeyError, TypeError):
        return dict(failures=[], nontrivial=False, classes=["malformed"])
    root = os.path.realpath(tempfile.mkdtemp(prefix="verif_c10_"))
    old_cwd = os.getcwd()
    fails = []
    classes = [mode]
    nontrivial = False
    try:
        base = make_tree(root)
        os.chdir(root)
        if mode == "read" and SWAPS[case.get("swap", 0) % len(SWAPS)] == "repoint_base_link":
            # re-pointing the base link only matters to reads spelled through it, after an earlier read through it
            case = dict(case, focus=6 + (len(case.get("again") or []) % 2), warm=(case.get("warm") or []) + [["twin", 0, case.get("entry", 0) % 5]],
                        pre=0 if case.get("offset") else case.get("pre", 0))
        if mode == "read" and case.get("focus") is not None:
            fl, fb = FOCUS[case["focus"] % len(FOCUS)]
            case = dict(case, loc=[COMPONENTS.index(c) for c in fl], base=BASES.index(fb))
            classes.append("focused_main_read")
        tmp = os.path.join(root, "scratch")
        os.makedirs(tmp)
        loc = location_of(case, root, base)
        off = case.get("offset", 0)
        length = 8
        canaries = {}
        for dp, _, fs in os.walk(root):
            for f in fs:
                p = os.path.join(dp, f)
                if "/scratch" in p:
                    continue
                try:
                    canaries[p] = open(p, "rb").read()
                except OSError:
                    pass
        def judge(got, loc, eff_abs, label, site, availability=False):
            allowed, resolved = oracle_allowed(eff_abs, loc)
            if got is not None and len(got) > 0 and got[:length] == HARMLESS[off: off + length]:
                classes.append("bytes_of_the_earlier_harmless_base")  # cached from the first, legitimate read: not an escape
            elif got is not None and len(got) > 0:
                if not allowed:
                    which = [p for p, data in canaries.items() if data[off: off + length] == got[:length]]
                    where = "outside" if which and not which[0].startswith(os.path.realpath(eff_abs) + os.sep) else "inside-but-forbidden"
                    kind = _why(eff_abs, loc, resolved)
                    fails.append((f"escape/{site}/{kind}", f"{label}: location {loc!r} with base {eff_abs!r} returned bytes {got[:16]!r} of {which[:1]} ({where}); resolved target {resolved}"))
                else:
                    exp = open(resolved, "rb").read()[off: off + length]
                    if got[:length] != exp:
                        fails.append(("wrong-bytes" if site in ("read", "load") else f"wrong-bytes/{site}", f"{label}: location {loc!r}: returned {got[:16]!r} but the file holds {exp!r}"))
            if availability and got is None and allowed and not (not os.path.normpath(os.path.join(base, loc)).startswith(base + os.sep) or os.path.isabs(loc)):
                if loc in ("in.bin", "sub/in2.bin", "./in.bin", "sub/../in.bin") and os.path.realpath(eff_abs) == base:
                    fails.append(("availability/plain-inside-file-rejected", f"{label}: readable inside file {loc!r} (base {eff_abs!r}) was rejected"))
            return allowed, resolved

        if mode == "read":
            if BASES[case["base"] % len(BASES)] == "dot":
                os.chdir(base)
            # earlier reads in the same process, each one a read like any other
            for wi, w in enumerate(case.get("warm") or []):
                if w[0] == "twin":
                    wloc, wbd = location_of(case, root, base), base_spelling(case["base"], root, base)
                    if w[1] % 2 == 1 and os.path.abspath(wbd) == os.path.join(base, "sub") and not os.path.isabs(wloc):
                        wloc, wbd = "sub/" + wloc, base
                    elif w[1] % 2 == 1 and os.path.abspath(wbd) == base and wloc.startswith("sub/"):
                        wloc, wbd = wloc[4:], os.path.join(base, "sub")
                    classes.append("earlier_read_of_the_same_path_string")
                else:
                    wloc = location_of({"loc": w[0]}, root, base)
                    wbd = base_spelling(w[1], root, base)
                wt = ir.ExternalTensor(wloc, off, length, ir.DataType.UINT8, shape=ir.Shape([length]), name=f"warm{wi}", base_dir=wbd)
                wgot = None
                try:
                    wgot = read_via(ir, wt, w[2] % 5, tmp)
                    classes.append("earlier_read_returned")
                except Exception:
                    classes.append("earlier_read_raised")
                judge(wgot, wloc, os.path.abspath(wbd), f"earlier read #{wi} via {ENTRIES[w[2] % 5]}", "earlier-read")
                try:
                    wt.release()
                except Exception:
                    pass
            swap = SWAPS[case.get("swap", 0) % len(SWAPS)]
            if swap == "repoint_base_link":
                # the symbolic link through which a base directory is spelled now leads to the decoy directory
                os.unlink(os.path.join(root, "base_link"))
                os.symlink("work", os.path.join(root, "base_link"))
                classes.append("base_directory_link_repointed_between_reads")
            elif swap != "none":
                sp = os.path.join(base, "swap.bin")
                os.unlink(sp)
                if swap == "symlink_out":
                    os.symlink(os.path.join("..", "outside", "canary.bin"), sp)
                elif swap == "hardlink_out":
                    os.link(os.path.join(root, "outside", "odir", "deep.bin"), sp)
                else:
                    os.symlink("in.bin", sp)
                classes.append("file_replaced_between_reads:" + swap)
            bd = base_spelling(case["base"], root, base)
            pre = PRE[case.get("pre", 0) % len(PRE)]
            if pre == "none":
                t = ir.ExternalTensor(loc, off, length, ir.DataType.UINT8, shape=ir.Shape([length]), name="t", base_dir=bd)
            else:
                # history: the tensor is first read under a harmless base directory in which the same location is a plain
                # regular file, then re-pointed (tensor.base_dir = ...) at the adversarial base, then read again
                harmless = os.path.join(root, "harmless")
                hp = os.path.normpath(os.path.join(harmless, loc))
                ok_pre = False
                if (hp + os.sep).startswith(harmless + os.sep) and not os.path.isabs(loc) and not loc.endswith(("/", ".")) and loc:
                    try:
                        os.makedirs(os.path.dirname(hp), exist_ok=True)
                        if not os.path.exists(hp):
                            with open(hp, "wb") as f:
                                f.write(HARMLESS)
                        ok_pre = os.path.isfile(hp)
                    except OSError:
                        ok_pre = False
                t = ir.ExternalTensor(loc, off, length, ir.DataType.UINT8, shape=ir.Shape([length]), name="t", base_dir=harmless if ok_pre else bd)
                if ok_pre:
                    try:
                        if pre in ("numpy", "numpy_then_release"):
                            t.numpy()
                        elif pre == "tobytes":
                            t.tobytes()
                        else:
                            import numpy as np

                            np.asarray(t)
                        if pre == "numpy_then_release":
                            t.release()
                        classes.append("pre_read_" + pre)
                    except Exception:
                        classes.append("pre_read_raised")
                    t.base_dir = bd
            label = ENTRIES[case["entry"] % len(ENTRIES)]
            eff_base = bd
        else:
            # write a model whose initializer points at `loc`, then load it through a path spelling
            tp = onnx.TensorProto(name="w", data_type=onnx.TensorProto.UINT8, dims=[length], data_location=onnx.TensorProto.EXTERNAL)
            for k, v in (("location", loc), ("offset", str(off)), ("length", str(length))):
                tp.external_data.add(key=k, value=v)
            mp = _model_with_tensor(onnx, tp, WHERES[case.get("where", 0) % len(WHERES)])
            classes.append(WHERES[case.get("where", 0) % len(WHERES)])
            mpath = os.path.join(base, "model.onnx")
            with open(mpath, "wb") as f:
                f.write(mp.SerializeToString())
            how = LOADS[case["how"] % len(LOADS)]
            if how == "bare":
                os.chdir(base)
                arg = "model.onnx"
            elif how == "dot_slash":
                os.chdir(base)
                arg = "./model.onnx"
            elif how == "rel_dotdot":
                os.chdir(os.path.join(base, "sub"))
                arg = "../model.onnx"
            elif how == "absolute":
                arg = mpath
            elif how == "via_symlink_dir":
                arg = os.path.join(root, "base_link", "model.onnx")
            elif how == "symlink_dir_dotdot_abs":
                arg = os.path.join(root, "work", "into_sub", "..", "model.onnx")  # the file system opens base/model.onnx
            elif how == "symlink_dir_dotdot_rel":
                os.chdir(root)
                arg = os.path.join("work", "into_sub", "..", "model.onnx")
            elif how in ("model_file_symlink", "model_file_symlink_rel"):
                blob = os.path.join(root, "work", "blob.onnx")
                os.replace(mpath, blob)
                os.symlink(os.path.join("..", "work", "blob.onnx"), mpath)
                if how == "model_file_symlink":
                    arg = mpath
                else:
                    os.chdir(base)
                    arg = "model.onnx"
            else:
                os.chdir(root)
                arg = "base/model.onnx"
            model = ir.load(arg)
            found = [x for x in _all_ir_tensors(ir, model) if isinstance(x, ir.ExternalTensor)]
            if len(found) != 1:
                raise RuntimeError(f"harness: expected one external tensor, found {len(found)}")
            t = found[0]
            label = "load:" + how + ":" + WHERES[case.get("where", 0) % len(WHERES)]
            eff_base = base  # the model's directory, whatever the spelling
            classes.append(how)
        eff_abs = eff_base if mode == "load" else os.path.abspath(eff_base)
        allowed, resolved = oracle_allowed(eff_abs, loc)
        lexical_escape = not os.path.normpath(os.path.join(base, loc)).startswith(base + os.sep) or os.path.isabs(loc)
        via_link = resolved is not None and str(resolved) != os.path.normpath(os.path.join(base, loc))
        nontrivial = lexical_escape or via_link or (mode == "read" and BASES[case["base"] % len(BASES)] != "abs") or (mode == "load" and LOADS[case["how"] % len(LOADS)] != "absolute")
        site = "read"
        if mode == "load":
            wh = WHERES[case.get("where", 0) % len(WHERES)]
            site = "load" if wh == "main_initializer" else f"load@{wh}"
        elif "pre" in case and PRE[case.get("pre", 0) % len(PRE)] != "none":
            site = "read-after-rebase"
        got = None
        try:
            got = read_via(ir, t, case["entry"] if mode == "read" else case["entry"] % 5, tmp)
            classes.append("returned")
        except Exception as e:
            classes.append("raised")
        judge(got, loc, eff_abs, label, site, availability=(mode == "read"))
        # the same tensor object is read again, through other entry points
        for ai, a in enumerate(case.get("again") or []):
            got2 = None
            try:
                got2 = read_via(ir, t, a % 5, tmp)
            except Exception:
                pass
            classes.append("read_again_after_" + ("rejection" if got is None else "success") + (":returned" if got2 is not None else ":raised"))
            judge(got2, loc, eff_abs, f"{label}, then {ENTRIES[a % 5]} on the same tensor", site + "+again")
    except Exception as e:
        import traceback

        if os.environ.get("VERIF_DEBUG"):
            traceback.print_exc()
        return dict(failures=[], nontrivial=False, classes=[f"harness_skip_{type(e).__name__}"])
    finally:
        os.chdir(old_cwd)
        shutil.rmtree(root, ignore_errors=True)
    return dict(failures=fails, nontrivial=nontrivial, classes=classes)


def _model_with_tensor(onnx, tp, where):
    """A ModelProto (IR 10, opset 20) holding the external tensor `tp` at the requested place."""
    from onnx import helper as oh

    TP = onnx.TensorProto
    cond = oh.make_tensor_value_info("c", TP.BOOL, [])
    out = oh.make_tensor_value_info("o", TP.UINT8, [8])

    def const_node(name="k"):
        n = onnx.NodeProto(op_type="Constant", name="const_" + name, output=[name])
        a = n.attribute.add()
        a.name, a.type = "value", onnx.AttributeProto.TENSOR
        a.t.CopyFrom(tp)
        return n

    def branch(name, nodes, inits, result):
        return oh.make_graph(nodes, name, [], [oh.make_tensor_value_info(result, TP.UINT8, [8])], initializer=inits)

    def if_node(name, tb, eb, outname):
        return oh.make_node("If", ["c"], [outname], name=name, then_branch=tb, else_branch=eb)

    plain = branch("else_g", [oh.make_node("Constant", [], ["e"], value=oh.make_tensor("ev", TP.UINT8, [8], list(range(8))))], [], "e")
    functions = []
    inits = []
    if where == "main_initializer":
        nodes = [oh.make_node("Identity", ["w"], ["o"])]
        inits = [tp]
    elif where == "subgraph_initializer":
        tb = branch("then_g", [oh.make_node("Identity", ["w"], ["t"])], [tp], "t")
        nodes = [if_node("if0", tb, plain, "o")]
    elif where == "depth2_subgraph_initializer":
        inner = branch("inner_then", [oh.make_node("Identity", ["w"], ["t2"])], [tp], "t2")
        inner_else = branch("inner_else", [oh.make_node("Constant", [], ["e2"], value=oh.make_tensor("ev2", TP.UINT8, [8], list(range(8))))], [], "e2")
        tb = branch("then_g", [if_node("if1", inner, inner_else, "t")], [], "t")
        nodes = [if_node("if0", tb, plain, "o")]
    elif where == "constant_attr_main":
        nodes = [const_node("o")]
    elif where == "constant_attr_subgraph":
        tb = branch("then_g", [const_node("t")], [], "t")
        nodes = [if_node("if0", tb, plain, "o")]
    elif where == "constant_attr_depth2":
        inner = branch("inner_then", [const_node("t2")], [], "t2")
        inner_else = branch("inner_else", [oh.make_node("Constant", [], ["e2"], value=oh.make_tensor("ev2", TP.UINT8, [8], list(range(8))))], [], "e2")
        tb = branch("then_g", [if_node("if1", inner, inner_else, "t")], [], "t")
        nodes = [if_node("if0", tb, plain, "o")]
    elif where == "constant_attr_function":
        functions = [oh.make_function("local", "fn", [], ["y"], [const_node("y")], [oh.make_opsetid("", 20)])]
        nodes = [oh.make_node("fn", [], ["o"], domain="local")]
    elif where == "function_attr_default":
        # the default value of a function's attribute parameter (FunctionProto.attribute_proto), referenced by a body node
        cn = onnx.NodeProto(op_type="Constant", name="const_y", output=["y"])
        ra = cn.attribute.add()
        ra.name, ra.type, ra.ref_attr_name = "value", onnx.AttributeProto.TENSOR, "w"
        fproto = oh.make_function("local", "fn", [], ["y"], [cn], [oh.make_opsetid("", 20)])
        d = fproto.attribute_proto.add()
        d.name, d.type = "w", onnx.AttributeProto.TENSOR
        d.t.CopyFrom(tp)
        functions = [fproto]
        nodes = [oh.make_node("fn", [], ["o"], domain="local")]
    else:  # tensors_attr_subgraph: a TENSORS attribute on a custom node inside a subgraph
        n = onnx.NodeProto(op_type="Custom", domain="custom", name="cust", output=["t"])
        a = n.attribute.add()
        a.name, a.type = "many", onnx.AttributeProto.TENSORS
        a.tensors.add().CopyFrom(oh.make_tensor("first", TP.UINT8, [1], [1]))
        a.tensors.add().CopyFrom(tp)
        tb = branch("then_g", [n], [], "t")
        nodes = [if_node("if0", tb, plain, "o")]
    g = oh.make_graph(nodes, "g", [cond], [out], initializer=inits)
    mp = oh.make_model(g, ir_version=10, opset_imports=[oh.make_opsetid("", 20), oh.make_opsetid("local", 1), oh.make_opsetid("custom", 1)], functions=functions)
    return mp


def _all_ir_tensors(ir, model):
    out = []
    graphs = [model.graph] + [f.graph for f in model.functions.values()]
    for f in model.functions.values():
        for a in f.attributes.values():
            if not a.is_ref() and a.type == ir.AttributeType.TENSOR and a.value is not None:
                out.append(a.value)
    seen = set()
    while graphs:
        g = graphs.pop()
        if id(g) in seen:
            continue
        seen.add(id(g))
        for v in g.initializers.values():
            if v.const_value is not None:
                out.append(v.const_value)
        for n in g:
            for a in n.attributes.values():
                if a.is_ref():
                    continue
                if a.type == ir.AttributeType.TENSOR and a.value is not None:
                    out.append(a.value)
                elif a.type == ir.AttributeType.TENSORS:
                    out.extend(a.value)
                elif a.type == ir.AttributeType.GRAPH and a.value is not None:
                    graphs.append(a.value)
                elif a.type == ir.AttributeType.GRAPHS:
                    graphs.extend(a.value)
    return out


def _why(base, loc, resolved):
    try:
        rb = pathlib.Path(base).resolve()
        if resolved is None:
            return "unresolvable"
        if not (resolved == rb or resolved.is_relative_to(rb)):
            return "outside-base"
        st = os.stat(resolved)
        if st.st_nlink > 1:
            return "hard-link"
        return "not-regular"
    except OSError:
        return "stat-failed"


def selftest():
    root = os.path.realpath(tempfile.mkdtemp(prefix="verif_c10_self_"))
    try:
        base = make_tree(root)
        assert oracle_allowed(base, "in.bin")[0]
        assert oracle_allowed(base, "link_in")[0]
        assert not oracle_allowed(base, "link_out")[0]
        assert not oracle_allowed(base, "../outside/canary.bin")[0]
        assert not oracle_allowed(base, "hard_in")[0] and not oracle_allowed(base, "hard_out")[0]
        assert not oracle_allowed(base, "dlink_out/canary.bin")[0]
        assert oracle_allowed(base, "dlink_in/in2.bin")[0]
        assert not oracle_allowed(base, "../base_evil/evil.bin")[0]
        assert not oracle_allowed(base, "sub")[0]
        assert not oracle_allowed(base, "link_hard_in")[0] and not oracle_allowed(base, "link_chain_hard")[0] and oracle_allowed(base, "link_chain")[0]
        assert open(os.path.join(root, "work", "into_sub", "..", "in.bin"), "rb").read().startswith(b"INSIDE-0")
    finally:
        shutil.rmtree(root, ignore_errors=True)

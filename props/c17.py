"""C17 - deserializing any proto terminates with an error or a consistent IR; no file access."""

from __future__ import annotations

import os
import signal

ID = "C17"
LEVEL = "exploration"
TECHNIQUE = (
    "fuzzing with a semantic oracle inside the target: valid generated protos put through structured field-level "
    "mutators and byte-level mutation (Hypothesis-driven) and, in the thorough tier, a coverage-guided libFuzzer "
    "campaign per shard (atheris, tools/fuzz_c17.py, onnx_ir instrumented, seeded with generated protos, one shard from "
    "an empty corpus) through the same oracle function; then invariant check (C01 oracle), serialize/deserialize fixpoint and a file-access monitor"
)
LEVEL_TEXT = (
    "Generated exploration of malformed inputs: (a) field-level mutations of valid generated protos, (b) byte-level "
    "mutations of their serialization. Any exception is an allowed outcome; what is judged is the returned IR "
    "(global invariants), the to_proto/from_proto fixpoint, termination within a budget and the absence of file access."
)
TRUSTED = "vlib.invariants (C01 oracle), vlib.fsmon (self-tested), protobuf"
RULE = (
    "case = tape for vlib/protogen + list of mutations (dangling/duplicated/empty names, removed types, shuffled or "
    "cyclic node order, outputs redeclared across scopes, unknown enum numbers, invalid UTF-8, tensor fields "
    "inconsistent with dims, negative dims, absurd external-data entries, missing graphs, self captures, deep nesting, "
    "duplicate attributes/opsets/functions, dangling device references) or byte edits of the serialized proto. "
    "Non-trivial = at least one mutation applied (proto differs from the generator output) and deserialization got "
    "past the first message (a model came back, or the error was raised from a nested element). distinct = case JSON."
)
ASSUMPTIONS = [
    "accesses to Python source/byte-code/shared objects (lazy imports) are not counted as file access",
    "a 20 s alarm per case reports 'inconclusive' (counted), never a violation",
]
BUDGET = {"quick": (16, 1200), "thorough": (16, 15000)}
N_MUT = 30


def strategy(tier, phase):
    from hypothesis import strategies as st

    from vlib import protogen

    mut = st.tuples(st.integers(0, N_MUT - 1), st.integers(0, 50), st.integers(0, 50)).map(list)
    bedit = st.tuples(st.integers(0, 3), st.integers(0, 4000), st.integers(0, 255)).map(list)
    return st.fixed_dictionaries(
        {"gen": st.sampled_from([2, 3, 4, 4]), "tape": protogen.tape_strategy(300), "irv": st.sampled_from([0, 0, 11, 13, 8, 9, 8]),
         "muts": st.lists(mut, min_size=0, max_size=5), "bytes": st.one_of(st.just([]), st.just([]), st.lists(bedit, min_size=1, max_size=6))}
    )


# ------------------------------------------------------------------------------------------------
def _all_nodes(mp):
    out = []

    def walk_graph(g):
        for n in g.node:
            out.append((n, g))
            for a in n.attribute:
                if a.HasField("g"):
                    walk_graph(a.g)
                for sg in a.graphs:
                    walk_graph(sg)

    walk_graph(mp.graph)
    for f in mp.functions:
        for n in f.node:
            out.append((n, f))
            for a in n.attribute:
                if a.HasField("g"):
                    walk_graph(a.g)
                for sg in a.graphs:
                    walk_graph(sg)
    return out


def _all_tensors(mp):
    out = []

    def walk_graph(g):
        out.extend(g.initializer)
        for n in g.node:
            walk_node(n)

    def walk_node(n):
        for a in n.attribute:
            if a.HasField("t"):
                out.append(a.t)
            out.extend(a.tensors)
            if a.HasField("g"):
                walk_graph(a.g)
            for sg in a.graphs:
                walk_graph(sg)

    walk_graph(mp.graph)
    for f in mp.functions:
        for n in f.node:
            walk_node(n)
    return out


def mutate(mp, muts):
    """Apply field-level mutations in place; returns number applied."""
    import onnx

    applied = 0
    for kind, a, b in muts:
        nodes = _all_nodes(mp)
        tensors = _all_tensors(mp)
        try:
            if kind == 0 and nodes:  # dangling input
                n, _ = nodes[a % len(nodes)]
                n.input.append(["nonexistent", "", "x" * 3][b % 3])
            elif kind == 1 and len(nodes) >= 2:  # output redeclared (same or other scope)
                n1, _ = nodes[a % len(nodes)]
                n2, _ = nodes[b % len(nodes)]
                if n2.output:
                    n1.output.append(n2.output[0])
            elif kind == 2 and nodes:  # empty names
                n, g = nodes[a % len(nodes)]
                if b % 3 == 0 and n.output:
                    n.output[0] = ""
                elif b % 3 == 1 and isinstance(g, onnx.GraphProto) and g.input:
                    g.input[0].name = ""
                elif isinstance(g, onnx.GraphProto) and g.initializer:
                    g.initializer[0].name = ""
            elif kind == 3:  # remove types
                for vi in list(mp.graph.input) + list(mp.graph.output) + list(mp.graph.value_info):
                    if (a + len(vi.name)) % 2 == 0:
                        vi.ClearField("type")
            elif kind == 4 and nodes:  # reverse node order of a graph
                _, g = nodes[a % len(nodes)]
                lst = list(g.node)[::-1]
                del g.node[:]
                g.node.extend(lst)
            elif kind == 5 and nodes:  # cycle: node consumes its own / a later output
                n, g = nodes[a % len(nodes)]
                later = [o for m in g.node for o in m.output if o]
                if later:
                    n.input.append(later[b % len(later)])
            elif kind == 6 and nodes:  # inner node output named like an outer value
                n, g = nodes[a % len(nodes)]
                names = [i.name for i in mp.graph.input] + [t.name for t in mp.graph.initializer]
                if names and n.output:
                    n.output[0] = names[b % len(names)]
            elif kind == 7 and tensors:  # unknown enum numbers
                tensors[a % len(tensors)].data_type = [99, 0, 27, -1 & 0x7FFFFFFF][b % 4]
            elif kind == 8 and nodes:
                n, _ = nodes[a % len(nodes)]
                if n.attribute:
                    n.attribute[0].type = [99, 15, 0][b % 3]
            elif kind == 9:
                for vi in list(mp.graph.input)[:1]:
                    if vi.type.HasField("tensor_type"):
                        vi.type.tensor_type.elem_type = [77, 0, 1000][b % 3]
            elif kind == 10 and nodes:  # invalid utf-8
                n, _ = nodes[a % len(nodes)]
                at = n.attribute.add()
                at.name = "bad"
                if b % 2:
                    at.type = onnx.AttributeProto.STRINGS
                    at.strings.extend([b"\xff\xfe", b"ok"])
                else:
                    at.type = onnx.AttributeProto.STRING
                    at.s = b"\xc3\x28"
            elif kind == 11 and tensors:  # tensor fields inconsistent with dims / each other
                t = tensors[a % len(tensors)]
                k = b % 5
                if k == 0:
                    t.raw_data = b"\x01"
                elif k == 1:
                    t.dims.append(-3)
                elif k == 2:
                    t.float_data.extend([1.0, 2.0])
                    t.int64_data.extend([3])
                elif k == 3:
                    del t.dims[:]
                    t.dims.extend([2**40, 2**40])
                else:
                    t.string_data.append(b"s")
            elif kind == 12 and tensors:  # absurd external data
                t = tensors[a % len(tensors)]
                t.data_location = onnx.TensorProto.EXTERNAL
                del t.external_data[:]
                for k_, v_ in [[("location", "../../etc/passwd"), ("offset", "-1")], [("offset", "abc")], [("location", "/etc/hostname"), ("length", "1e9")],
                               [], [("location", ""), ("offset", "99999999999999999999")], [("location", "a\x00b")]][b % 6]:
                    t.external_data.add(key=k_, value=v_)
            elif kind == 13 and nodes:  # GRAPH attribute without g / TENSOR without t
                n, _ = nodes[a % len(nodes)]
                at = n.attribute.add()
                at.name = "nog"
                at.type = [onnx.AttributeProto.GRAPH, onnx.AttributeProto.TENSOR, onnx.AttributeProto.GRAPHS, onnx.AttributeProto.TYPE_PROTO][b % 4]
            elif kind == 14:  # graph output naming nothing / duplicated input
                if b % 2:
                    mp.graph.output.add(name="nothing")
                elif mp.graph.input:
                    mp.graph.input.add().CopyFrom(mp.graph.input[0])
            elif kind == 15:  # duplicated initializer
                if mp.graph.initializer:
                    mp.graph.initializer.add().CopyFrom(mp.graph.initializer[0])
            elif kind == 16 and nodes:  # deep nesting
                n, _ = nodes[a % len(nodes)]
                cur = n
                for d in range(10 + 10 * (b % 5)):
                    at = cur.attribute.add()
                    at.name = f"deep{d}"
                    at.type = onnx.AttributeProto.GRAPH
                    cur = at.g.node.add()
                    cur.op_type = "Nest"
                    cur.output.append(f"deep_v{d}")
            elif kind == 17 and nodes:  # duplicate attribute names
                n, _ = nodes[a % len(nodes)]
                if n.attribute:
                    n.attribute.add().CopyFrom(n.attribute[0])
            elif kind == 18:  # duplicate opset / function
                if mp.opset_import:
                    mp.opset_import.add().CopyFrom(mp.opset_import[0])
                    mp.opset_import[-1].version += 1
                if mp.functions:
                    mp.functions.add().CopyFrom(mp.functions[0])
            elif kind == 19 and mp.functions:  # function output not produced / input duplicated
                f = mp.functions[a % len(mp.functions)]
                if b % 2:
                    f.output.append("not_produced")
                elif f.input:
                    f.input.append(f.input[0])
            elif kind == 20 and nodes:  # dangling device references
                n, _ = nodes[a % len(nodes)]
                dc = n.device_configurations.add()
                dc.configuration_id = ["missing_cfg", ""][b % 2]
                sp = dc.sharding_spec.add()
                sp.tensor_name = ["no_such_tensor", ""][b % 2]
                sp.device.extend([-1, 99])
            elif kind == 21:
                mp.ClearField("graph")
            elif kind == 22 and nodes:  # self capture inside a subgraph
                n, _ = nodes[a % len(nodes)]
                at = n.attribute.add()
                at.name = "selfcap"
                at.type = onnx.AttributeProto.GRAPH
                inner = at.g.node.add()
                inner.op_type = "Use"
                inner.input.extend(list(n.output)[:1])
                inner.output.append("selfcap_out")
                at.g.output.add(name="selfcap_out")
            elif kind == 23:  # value_info / annotation for unknown names, dim weirdness
                vi = mp.graph.value_info.add(name="dangling_vi")
                d = vi.type.tensor_type.shape.dim.add()
                d.dim_value = -5
                mp.graph.quantization_annotation.add(tensor_name="no_such")
            elif kind == 24:  # IR version inconsistent with the features used
                mp.ir_version = [0, 3, 9, 10, 11, 2**31 - 1, 7][b % 7]
            elif kind == 25:  # types that keep their shape but lose the element type (also inside sequence/optional)
                graphs = [mp.graph] + [g for _, g in nodes if isinstance(g, onnx.GraphProto)]
                vis = [vi for g in graphs for vi in list(g.value_info) + list(g.input) + list(g.output)] + [vi for f in mp.functions for vi in f.value_info]
                hit = 0
                for i, vi in enumerate(vis):
                    if (a + i) % (1 + b % 3) == 0:
                        t = vi.type
                        for _ in range(4):
                            w = t.WhichOneof("value")
                            if w in ("sequence_type", "optional_type"):
                                t = getattr(t, w).elem_type
                            else:
                                break
                        if t.WhichOneof("value") == "tensor_type" and t.tensor_type.HasField("shape"):
                            t.tensor_type.ClearField("elem_type")
                            hit += 1
                if not hit:
                    continue
            elif kind == 26 and nodes:  # a subgraph lists as its output / input / initializer a name defined in an enclosing graph
                subs = [(at.g, g) for n, g in nodes for at in n.attribute if at.type == onnx.AttributeProto.GRAPH and at.HasField("g")]
                subs += [(sg, g) for n, g in nodes for at in n.attribute for sg in at.graphs]
                if not subs:
                    continue
                sg, outer = subs[a % len(subs)]
                outer_names = [o for n in getattr(outer, "node", []) for o in n.output if o] + [i.name for i in getattr(outer, "input", []) if i.name]
                outer_names += [t.name for t in getattr(outer, "initializer", []) if t.name]
                if not outer_names:
                    continue
                nm = outer_names[b % len(outer_names)]
                how = (a + b) % 4
                if how == 0 and sg.output:
                    sg.output[0].name = nm
                elif how == 1:
                    sg.output.add(name=nm)
                elif how == 2:
                    sg.input.add(name=nm)
                else:
                    sg.initializer.add(name=nm, data_type=1, dims=[1], float_data=[1.0])
            elif kind == 27 and nodes:  # a sharding annotation naming one of the node's own inputs/outputs - also a dangling input
                n, _ = nodes[a % len(nodes)]
                names = [x for x in list(n.input) + list(n.output) if x]
                if b % 3 == 0 or not names:
                    n.input.append(f"dangling_in_{a}")
                    names = [f"dangling_in_{a}"]
                dc = n.device_configurations.add()
                dc.configuration_id = ["cfg_a", "missing_cfg"][b % 2]
                if b % 2 == 0 and not any(c.name == "cfg_a" for c in mp.configuration):
                    mp.configuration.add(name="cfg_a", num_devices=2)
                sp = dc.sharding_spec.add()
                sp.tensor_name = names[(a + b) % len(names)]
                sp.device.extend([0, 1])
                if b % 4 == 0:
                    dc.pipeline_stage = b % 3
            elif kind == 28 and nodes:  # a nested node output takes the name of a value of an enclosing graph, and is annotated
                nested = [(n, g) for n, g in nodes if g is not mp.graph and isinstance(g, onnx.GraphProto) and any(n.output)]
                outer_names = [o for n in mp.graph.node for o in n.output if o] + [i.name for i in mp.graph.input if i.name] + [t.name for t in mp.graph.initializer if t.name]
                if not nested or not outer_names:
                    continue
                n, g = nested[a % len(nested)]
                j = [k_ for k_, o in enumerate(n.output) if o][0]
                old_name, new_name = n.output[j], outer_names[b % len(outer_names)]
                n.output[j] = new_name
                for m_ in g.node:  # consumers inside the same graph follow the rename
                    for k_, i_ in enumerate(m_.input):
                        if i_ == old_name:
                            m_.input[k_] = new_name
                for o_ in g.output:
                    if o_.name == old_name:
                        o_.name = new_name
                dc = n.device_configurations.add()
                dc.configuration_id = "cfg_a"
                if not any(c.name == "cfg_a" for c in mp.configuration):
                    mp.configuration.add(name="cfg_a", num_devices=2)
                dc.sharding_spec.add(tensor_name=new_name)
            elif kind == 29 and mp.functions:  # an old-IR model whose function value types live in the main graph's value_info
                fp = mp.functions[a % len(mp.functions)]
                mp.ir_version = [8, 9][b % 2]
                if b % 3 == 0:
                    fp.domain = ["ai.onnx", "a::b", "pkg/sub"][a % 3]  # alias spelling / separators of the entry-name format
                if hasattr(fp, "overload"):
                    fp.overload = ""
                for vname in list(fp.input)[:1] + [o for n in fp.node for o in n.output if o][:2]:
                    if (a + b) % 2 and hasattr(fp, "value_info"):
                        vi = fp.value_info.add()  # (the field of later IR versions, in an old-IR model)
                        vi.name = vname
                    else:
                        vi = mp.graph.value_info.add()
                        vi.name = f"{fp.domain}::{fp.name}/{vname}"
                    vi.type.tensor_type.elem_type = 1
                    vi.type.tensor_type.shape.dim.add().dim_value = 2
            else:
                continue
            applied += 1
        except Exception:  # incl. protobuf DecodeError when copying very deep messages
            continue
    return applied


def byte_mutate(data, edits):
    b = bytearray(data)
    for op, pos, val in edits:
        if not b:
            break
        p = pos % len(b)
        op = [0, 3, 0, 3, 1, 2, 3, 0][(op + val) % 8]  # substitutions keep length prefixes decodable more often
        if op == 0:
            b[p] = val
        elif op == 1:
            b.insert(p, val)
        elif op == 2:
            del b[p]
        else:
            b[p] ^= 1 << (val % 8)
    return bytes(b)


class _Timeout(Exception):
    pass


def _alarm(signum, frame):
    raise _Timeout()


_WARM = [False]


def check_proto(mp, label):
    """The semantic oracle (also used by the atheris target). Returns (failures, returned_model, stage)."""
    import onnx

    import onnx_ir as ir
    from vlib import fsmon, invariants
    from vlib import universe as U

    fails = []
    if not _WARM[0]:  # lazy imports happen on the first call; do one unmonitored round first
        try:
            ir.to_proto(ir.from_proto(onnx.ModelProto(ir_version=8, graph=onnx.GraphProto(name="warm", initializer=[onnx.TensorProto(name="t", data_type=1, dims=[1], raw_data=b"\0\0\0\0", data_location=0)]))))
            onnx.external_data_helper.ExternalDataInfo(onnx.TensorProto())
        except Exception:
            pass
        _WARM[0] = True
    old = signal.signal(signal.SIGALRM, _alarm)
    signal.alarm(20)
    model = None
    stage = "deserialize"
    if isinstance(mp, onnx.ModelProto) and mp.graph.node:
        # a failed deserialization earlier in the same process must leave nothing behind: a variant of this very proto (same
        # names) that is rejected half-way - the first output of its last node is redeclared by an extra node - goes first
        try:
            poison = onnx.ModelProto()
            poison.CopyFrom(mp)
            outs = [o for n in poison.graph.node for o in n.output if o]
            if outs:
                poison.graph.node.add(op_type="Redeclare", output=[outs[0]], name="c17_poison")
                try:
                    ir.from_proto(poison)
                except _Timeout:
                    raise
                except Exception:
                    pass
        except _Timeout:
            signal.alarm(0)
            signal.signal(signal.SIGALRM, old)
            return fails, None, "inconclusive-timeout"
        except Exception:
            pass
    try:
        with fsmon.recording() as ev:
            try:
                model = ir.from_proto(mp)
            except _Timeout:
                raise
            except RecursionError:
                model = None
                stage = "raised-nested"
            except Exception as e:
                model = None
                stage = "raised-nested" if ("Error calling" in str(e) or e.__cause__ is not None) else "raised"
            if model is not None:
                for t in _ir_tensors(model):
                    try:
                        t.name, t.dtype, t.shape, t.size
                    except _Timeout:
                        raise
                    except Exception:
                        pass
            if isinstance(mp, onnx.ModelProto):
                # the tensor-level entry point with a base directory given (a relative one that does not exist): same promise
                for tp in list(mp.graph.initializer)[:8]:
                    if tp.data_location == onnx.TensorProto.EXTERNAL:
                        try:
                            t = ir.serde.deserialize_tensor(tp, "c17_base/sub")
                            t.name, t.dtype, t.shape, t.size
                        except _Timeout:
                            raise
                        except Exception:
                            pass
            events = list(ev)
        if events:
            fails.append((f"file-access/{events[0][0]}", f"{label}: deserialization/inspection touched the file system: {events[:4]}"))
        if model is not None:
            stage = "returned"
            u = U.Universe.from_model(model)
            errs = invariants.check_all(u)
            if errs:
                fails.append((f"inconsistent-ir/{errs[0][0]}", f"{label}: from_proto returned an IR with {errs[0][1]}"))
            bad = _detached_sharding(model)
            if bad:
                fails.append(("inconsistent-ir/sharding-spec-detached", f"{label}: {bad}"))
            bad = _foreign_owner(model)
            if bad:
                fails.append(("inconsistent-ir/node-output-owned-by-another-graph", f"{label}: {bad}"))
            if isinstance(mp, onnx.ModelProto) and isinstance(model, ir.Model) and not any(
                    len({a.name for a in n.attribute}) != len(n.attribute) for n, _ in _all_nodes(mp)):
                # every user of a value of the model is a node of the model (a body dropped because its attribute name occurs
                # twice keeps its uses of outer values: such protos are left out)
                members = {id(n) for g_ in [model.graph] + [f.graph for f in model.functions.values()] for n in ir.traversal.RecursiveGraphIterator(g_)}
                stray = None
                for g_ in [model.graph] + [f.graph for f in model.functions.values()]:
                    for n in ir.traversal.RecursiveGraphIterator(g_):
                        for v in n.inputs:
                            if v is not None:
                                for un, _ in v.uses():
                                    if id(un) not in members:
                                        stray = (v.name, un.name, un.op_type, n.name)
                if stray:
                    fails.append(("inconsistent-ir/value-used-by-a-node-outside-the-model", f"{label}: value {stray[0]!r} read by node {stray[3]!r} is also used by node {stray[1]!r} ({stray[2]}), which is not in the deserialized model"))
            if isinstance(mp, onnx.ModelProto) and isinstance(model, ir.Model):
                # every consumer is wired to the definition the scoping rule names (resolved on the proto, independently)
                from vlib import wiring

                try:
                    bad = wiring.check(mp, model, dangling=True)
                except _Timeout:
                    raise
                except Exception:
                    bad = None  # the oracle does not apply to this malformed proto (e.g. duplicate function ids)
                # a malformed proto may not map onto the IR graph by graph (duplicate attribute names, a graph stored under a
                # non-graph attribute type, ...): then the oracle has nothing to say; only input wiring is judged
                if bad and all(".input[" in b for b in bad):
                    kind = "undefined-name-split" if "undefined name" in bad[0] else "scope"
                    fails.append((f"inconsistent-ir/wiring-{kind}", f"{label}: {bad[0]}"[:400]))
            try:
                p1 = ir.to_proto(model)
            except _Timeout:
                raise
            except Exception:
                p1 = None
            if p1 is not None:
                try:
                    m2 = ir.from_proto(p1)
                    p2 = ir.to_proto(m2)
                    if p1.SerializeToString(deterministic=True) != p2.SerializeToString(deterministic=True):
                        from vlib import protocanon

                        d = protocanon.first_diff(p1, p2)
                        if d and d[0].endswith("value_info#count") and "type {" not in d[1]:
                            d = (d[0] + ":untyped-entry", d[1])  # an entry holding only a name (separate root cause)
                        fails.append((f"no-fixpoint/{d[0] if d else '?'}", f"{label}: to_proto(from_proto(P1)) != P1: {d[1] if d else ''}"[:400]))
                except _Timeout:
                    raise
                except Exception as e:
                    fails.append((f"reserialized-proto-rejected/{type(e).__name__}", f"{label}: to_proto succeeded but its result does not deserialize/serialize again: {type(e).__name__}: {e}"[:400]))
    except _Timeout:
        stage = "inconclusive-timeout"
    finally:
        signal.alarm(0)
        signal.signal(signal.SIGALRM, old)
    return fails, model, stage


def _foreign_owner(model):
    """`Value.graph` is documented as: for an output of a node, the graph that node belongs to.  A deserialized IR in
    which some graph claims (as its input/output/initializer) a value produced by a node of ANOTHER graph has two
    owners for one value."""
    graphs = [model.graph] + [f.graph for f in model.functions.values()]
    for g in graphs:
        for n in g.all_nodes():
            for o in n.outputs:
                if n.graph is not None and o.graph is not None and o.graph is not n.graph:
                    return f"value {o.name!r} is produced by node {n.name!r} of graph {n.graph.name!r} but is owned by graph {o.graph.name!r}"
    return None


def _detached_sharding(model):
    """A sharding annotation that carries the name of one of its node's own inputs/outputs must be bound to that very
    value object: a name means one value inside one node (the annotation and the input link cannot disagree)."""
    graphs = [model.graph] + [f.graph for f in model.functions.values()]
    for g in graphs:
        for n in g.all_nodes():
            ios = [v for v in list(n.inputs) + list(n.outputs) if v is not None]
            for dc in n.device_configurations or ():
                for spec in dc.sharding_specs:
                    v = spec.value
                    if v is None or not v.name:
                        continue
                    same_name = [x for x in ios if x.name == v.name]
                    if same_name and not any(x is v for x in ios):
                        return f"node {n.name!r} ({n.op_type}): sharding annotation for {v.name!r} is bound to another Value object than the node's own input/output of that name"
    return None


def _ir_tensors(model):
    import onnx_ir as ir

    out = []
    graphs = [model.graph] + [f.graph for f in model.functions.values()]
    seen = set()
    while graphs:
        g = graphs.pop()
        if id(g) in seen:
            continue
        seen.add(id(g))
        for v in g.initializers.values():
            if v.const_value is not None:
                out.append(v.const_value)
        for n in g:
            for a in n.attributes.values():
                if a.is_ref():
                    continue
                if a.type == ir.AttributeType.TENSOR and a.value is not None:
                    out.append(a.value)
                elif a.type == ir.AttributeType.TENSORS:
                    out.extend(a.value)
                elif a.type == ir.AttributeType.GRAPH and a.value is not None:
                    graphs.append(a.value)
                elif a.type == ir.AttributeType.GRAPHS:
                    graphs.extend(a.value)
    return out


def execute(case):
    import onnx

    from vlib import protogen

    if "raw" in case:  # an input found by the coverage-guided tier (tools/fuzz_c17.py): base64 of the wire bytes
        import base64

        mp = onnx.ModelProto()
        try:
            mp.ParseFromString(base64.b64decode(case["raw"]))
        except Exception:
            return dict(failures=[], nontrivial=False, classes=["malformed"])
        fails, model, stage = check_proto(mp, "from_proto(raw)")
        return dict(failures=fails, nontrivial=stage in ("returned", "raised-nested"), classes=["raw_bytes", stage])
    try:
        mp, features = protogen.build_model(case["tape"], case.get("irv") or None, case.get("gen", 1))
        applied = mutate(mp, case.get("muts", []))
        edits = case.get("bytes", [])
    except (KeyError, TypeError):
        return dict(failures=[], nontrivial=False, classes=["malformed"])
    classes = []
    if edits:
        data = byte_mutate(mp.SerializeToString(), edits)
        mp2 = onnx.ModelProto()
        try:
            mp2.ParseFromString(data)
        except Exception:
            return dict(failures=[], nontrivial=False, classes=["byte_mutation_undecodable"])
        mp = mp2
        applied += 1
        classes.append("byte_mutated")
    fails, model, stage = check_proto(mp, "from_proto")
    classes.append(stage)
    if applied:
        classes.append("mutated")
    for k, _, _ in case.get("muts", []):
        classes.append(f"mut{k}")
    nontrivial = applied > 0 and stage in ("returned", "raised-nested")
    return dict(failures=fails, nontrivial=nontrivial, classes=sorted(set(classes)))


FUZZ_RUNS = {"quick": 0, "thorough": 40000}


def extra(tier, seed, shard, col):
    """Coverage-guided tier: one atheris/libFuzzer campaign per shard (thorough only), seeded with valid generated
    protos.  Findings come back as files and are recorded like any other case ({"raw": base64})."""
    import base64
    import json
    import shutil
    import subprocess
    import sys
    import tempfile

    from vlib import protogen

    runs = int(FUZZ_RUNS.get(tier, 0) * float(os.environ.get("VERIF_SCALE", "1")))
    if runs <= 0:
        return
    root = os.path.dirname(os.path.dirname(os.path.abspath(__file__)))
    if not os.path.isdir(os.path.join(root, ".deps", "atheris")):
        col.extra["atheris"] = "not installed (setup.sh installs it from the offline wheelhouse); tier skipped"
        return
    work = tempfile.mkdtemp(prefix="verif_c17_fuzz_")
    try:
        corpus = os.path.join(work, "corpus")
        found = os.path.join(work, "found")
        os.makedirs(corpus)
        # seed corpus: 24 generated valid protos (deterministic in seed/shard); shard 0 additionally starts EMPTY
        if shard != 0:
            for k in range(24):
                tape = [(seed * 7919 + shard * 104729 + k * 31 + j * j * 17) % 65537 for j in range(60 + 10 * k)]
                try:
                    mp, _ = protogen.build_model(tape, [None, 8, 11, 13][k % 4])
                    with open(os.path.join(corpus, f"seed{k}.bin"), "wb") as f:
                        f.write(mp.SerializeToString())
                except Exception:
                    pass
        env = dict(os.environ, PYTHONHASHSEED="0")
        cmd = [sys.executable, os.path.join(root, "tools", "fuzz_c17.py"), found, corpus, f"-runs={runs}", f"-seed={seed * 1000 + shard + 1}",
               "-max_len=6000", "-timeout=60", "-rss_limit_mb=4096", "-print_final_stats=0", f"-artifact_prefix={work}/"]
        r = subprocess.run(cmd, capture_output=True, text=True, env=env, timeout=3 * 3600)
        stats = {}
        try:
            stats = json.load(open(os.path.join(found, "stats.json")))
        except Exception:
            col.errors.append("atheris campaign produced no stats: rc=%s %s" % (r.returncode, (r.stderr or "")[-600:]))
            return
        col.extra["fuzz_execs"] = col.extra.get("fuzz_execs", 0) + stats.get("execs", 0)
        col.extra["fuzz_decoded_as_model"] = col.extra.get("fuzz_decoded_as_model", 0) + stats.get("decoded", 0)
        col.extra["fuzz_returned_ir"] = col.extra.get("fuzz_returned_ir", 0) + stats.get("returned", 0)
        col.extra["fuzz_corpus_units"] = col.extra.get("fuzz_corpus_units", 0) + len(os.listdir(corpus))
        for f in sorted(os.listdir(found)):
            if f.endswith(".bin"):
                data = open(os.path.join(found, f), "rb").read()
                case = {"raw": base64.b64encode(data).decode()}
                col.record(case, execute(case))
        # crash-/timeout- artifacts of libFuzzer itself (python exceptions escaping the oracle, hangs)
        for f in sorted(os.listdir(work)):
            if f.startswith(("crash-", "timeout-", "oom-")):
                data = open(os.path.join(work, f), "rb").read()
                case = {"raw": base64.b64encode(data).decode()}
                out = execute(case)
                if f.startswith("timeout-") and not out["failures"]:
                    out["classes"].append("fuzz_timeout_artifact_inconclusive")
                col.record(case, out)
    finally:
        shutil.rmtree(work, ignore_errors=True)


def selftest():
    from vlib import fsmon

    fsmon.selftest()

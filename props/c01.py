"""C01 - use-def and ownership links stay consistent under every edit history."""

from __future__ import annotations

from vlib import history
from vlib import universe as U

ID = "C01"
LEVEL = "exploration"
RULE = (
    "case = generated script of public editing calls (edit alphabet of vlib/universe.py: node/graph "
    "constructors, Graph/Function append/extend/insert_*/remove/sort, Node.prepend/append/"
    "replace_input_with/resize_*, replace_all_uses_with, convenience.rename/replace, every mutator of "
    "graph.inputs/outputs/initializers, name setters) over a universe with a main graph, a nested "
    "subgraph and a function body; arguments are index-decoded so they are type-correct but arbitrary. "
    "Multi-element arguments are passed under every spelling of Iterable (list, tuple, generator, iterator); copies of the "
    "tracked collections are edited too. Oracle: invariants I1-I4 over public accessors after every op, raised or not, and once "
    "more after a fixed tail of accepted edits that follows every history with a rejected call. "
    "Non-trivial = >=2 mutating ops and at least one of: a rejected call, a value in >=2 roles, "
    "a duplicate collection entry, a node moved between graphs. distinct = distinct script JSON."
)
ASSUMPTIONS = [
    "arguments of the wrong Python type are not generated (no contract stated for them)",
    "Node.graph setter is documented as internal and is not used as a mutator",
    "holds on the cases explored only; trusted base = harness oracle (self-tested) + CPython",
]
TECHNIQUE = 'stateful property-based testing: generated edit histories (Hypothesis) checked after every step against a global invariant oracle over public accessors; structural shrinking to a JSON replay'
LEVEL_TEXT = 'Generated-history exploration: thousands of index-decoded edit scripts over a multi-graph universe, with the complete I1-I4 invariant set evaluated after every call (returned or raised). Right level because the property quantifies over unbounded histories; the oracle is global, so any reachable inconsistency in the explored histories is seen.'
BUDGET = {"quick": (16, 1000), "thorough": (16, 20000)}
PHASES = ["main", "excl"]

# ops disabled in phase "excl" (exclusion by construction of known-defective variants,
# see known_findings.jsonl); empty when every finding is fixed.
EXCLUDED_OPS = []


def strategy(tier, phase):
    from hypothesis import strategies as st

    names = list(U.DEFAULT_OPS)
    if phase == "excl":
        names = [n for n in names if n not in EXCLUDED_OPS]
    max_ops = 40 if tier == "quick" else 120
    return st.fixed_dictionaries(
        {"setup": st.integers(0, 1), "safe": st.just(phase == "excl"), "ops": st.sampled_from([2, 4, 8, 14, 24, max_ops]).flatmap(lambda n: st.lists(U.op_strategy(names), min_size=max(1, n // 2), max_size=n))}
    )


def execute(case):
    try:
        r = history.run_history(case, want_inv=True, want_atomic=False)
    except U.Malformed:
        return dict(failures=[], nontrivial=False, classes=["malformed"])
    fails = []
    failing_case = None
    if r["inv_fail"]:
        bucket, msg, k = r["inv_fail"]
        fails.append((bucket, msg))
        failing_case = {"setup": case.get("setup", 1), "safe": case.get("safe", False), "ops": case["ops"][: k + 1]}
    if not fails and r["raised"]:
        # the history held every relation after every call; a rejected call may still have disturbed IR-private bookkeeping
        # (reference counters of the input/output lists), which shows in the relations only under later edits: one fixed
        # tail of accepted edits, the invariants again
        from vlib import invariants

        U.stress_tail(r["u"])
        errs = invariants.check_all(r["u"])
        if errs:
            fails.append((f"{errs[0][0]}/after-later-edits", f"after the history (rejected calls: {r['raised']}) and a fixed tail of accepted edits: {errs[0][1]}"[:400]))
    nontrivial = r["mutating"] >= 2 and (
        r["raised"] > 0 or r["multi_role"] or r["dup_entry"] or r["moved"]
    )
    classes = []
    if r["raised"]:
        classes.append("has_rejected_call")
    if r["multi_role"]:
        classes.append("multi_role_value")
    if r["dup_entry"]:
        classes.append("duplicate_entry")
    if r["moved"]:
        classes.append("node_moved_between_graphs")
    if r["executed"] >= 20:
        classes.append("len>=20")
    out = dict(failures=fails, nontrivial=nontrivial, classes=classes)
    if failing_case is not None:
        out["failing_case"] = failing_case
    return out


def selftest():
    """The invariant checker must flag deliberate corruptions of private fields."""
    from vlib import invariants

    def fresh():
        return U.Universe(1)

    # (the pristine universe is judged by execute(), not here: a defect of the code under test
    # must surface as a violation, never as a harness error)
    # a use deleted
    u = fresh()
    v = u.values[0]
    v._uses.clear()
    assert any(c == "I1-missing-use" for c, _ in invariants.check_all(u))
    # a flag flipped
    u = fresh()
    u.values[0]._is_graph_input = False
    assert any(c == "I4-input-flag" for c, _ in invariants.check_all(u))
    # node graph pointer dropped
    u = fresh()
    u.nodes[0]._graph = None
    assert any(c.startswith("I3") for c, _ in invariants.check_all(u))
    # producer index wrong
    u = fresh()
    u.nodes[0].outputs[0]._index = 3
    assert any(c.startswith("I2") for c, _ in invariants.check_all(u))
    # initializer key mismatch
    u = fresh()
    u.graphs[0].initializers["w"]._name = "zz"
    assert any(c == "I4-init-key" for c, _ in invariants.check_all(u))

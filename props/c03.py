"""C03 - IR -> proto -> IR preserves the model; serialization has no side effects."""

from __future__ import annotations

ID = "C03"
LEVEL = "exploration"
TECHNIQUE = (
    "property-based round-trip testing on the IR side: IR models obtained from generated protos and then edited "
    "through the public API by a generated edit script (unsorted order, untyped values, '' outputs, None inputs, five "
    "tensor implementations, nested graphs with captures, functions); oracle = definition-site based structural "
    "isomorphism of original and from_proto(to_proto(.)), idempotence of to_proto, and a full public-accessor "
    "snapshot before/after serialization"
)
LEVEL_TEXT = (
    "Generated exploration: models reachable by construction (deserialization of generated protos) and by edit "
    "histories. The isomorphism oracle describes every value by its definition site, so it is independent of object "
    "identity and of names being unique only per scope."
)
TRUSTED = "vlib/iso.py structural description, vlib/snapshot.py"
RULE = (
    "case = proto tape (vlib/protogen) + edit script over the deserialized model: rotate/reverse node order, insert "
    "node with fresh names, swap an initializer's tensor for Tensor/PackedTensor/LazyTensor/StringTensor/ExternalTensor, "
    "drop type+shape of a value, rename value/node to a fresh name, resize inputs (None) / outputs ('' name), remove an "
    "unused node, edit doc strings and metadata, replace_all_uses_with, add a nested graph capturing outer values, device annotations on nodes of any graph "
    "(IR>=11), tensor metadata edits (clear/pop/add), an inner value shadowing the name of an outer value it does not see, "
    "tied weights (one tensor object as const_value of two differently named initializers of one graph). "
    "Only name-valid end states are generated (fresh names are unique model-wide; a value with a shape has a type). "
    "Non-trivial = >=3 nodes and >=1 of: nested graph with captured value, function, unsorted order, optional "
    "input/output, non-proto tensor class. distinct = case JSON."
)
ASSUMPTIONS = [
    "IR-only data (meta stores except the quantization annotation, Node.version, opset_imports of nested graphs, const_value of non-initializers) is not part of the isomorphism",
    "trailing unnamed unused node outputs, '' vs None doc strings, and an initializer value's missing type/shape (taken from its tensor) are wire-level identities",
    "device configurations are compared only at IR version >= 11; function value info only at IR version >= 10",
]
BUDGET = {"quick": (16, 1400), "thorough": (16, 12000)}
N_OPS = 19


def strategy(tier, phase):
    from hypothesis import strategies as st

    from vlib import protogen

    op = st.tuples(st.integers(0, N_OPS - 1), st.integers(0, 60), st.integers(0, 60), st.integers(0, 60)).map(list)
    return st.fixed_dictionaries({"gen": st.sampled_from([2, 3, 4, 4]), "tape": protogen.tape_strategy(300), "irv": st.sampled_from([0, 10, 11, 13, 8, 9]),
                                  "ops": st.lists(op, min_size=0, max_size=10)})


class Ctx:
    def __init__(self, model):
        self.model = model
        self.n = 0
        self.flags = set()

    def fresh(self, p):
        self.n += 1
        return f"__c03_{p}{self.n}"

    def graphs(self):
        import onnx_ir as ir

        out = [self.model.graph] + list(self.model.graph.subgraphs())
        for f in self.model.functions.values():
            out.append(f.graph)
            out.extend(f.graph.subgraphs())
        seen, res = set(), []
        for g in out:
            if id(g) not in seen:
                seen.add(id(g))
                res.append(g)
        return res


def _chain_to(g, target):
    """Graphs nested strictly below `g` on the way down to `target` (inclusive); None if target is not below g."""
    import onnx_ir as ir

    for n in g:
        for a in n.attributes.values():
            if a.is_ref() or a.type not in (ir.AttributeType.GRAPH, ir.AttributeType.GRAPHS):
                continue
            for sg in ([a.value] if a.type == ir.AttributeType.GRAPH else list(a.value)):
                if sg is None:
                    continue
                if sg is target:
                    return [sg]
                rest = _chain_to(sg, target)
                if rest is not None:
                    return [sg] + rest
    return None


def apply_op(c, op):
    import numpy as np

    import onnx_ir as ir

    k, a, b, d = op
    graphs = c.graphs()
    g = graphs[a % len(graphs)]
    nodes = list(g)
    if k == 0 and len(nodes) >= 2:  # rotate node order (unsorted)
        r = 1 + b % (len(nodes) - 1)
        g.remove(nodes[:r])
        g.extend(nodes[:r])
        c.flags.add("unsorted")
    elif k == 1:  # insert a node with fresh names consuming existing values
        vals = [v for n in nodes for v in n.outputs if v.name] + [v for v in g.inputs if v.name]
        ins = [vals[(b + j) % len(vals)] if vals and (d + j) % 3 else None for j in range(d % 3)]
        n = ir.Node("", "Relu" if d % 2 else "Custom", ins, num_outputs=1 + d % 2, name=c.fresh("n"))
        for o in n.outputs:
            o.name = c.fresh("v")
        if nodes and b % 2:
            g.insert_before(nodes[b % len(nodes)], n)
        else:
            g.append(n)
        if d % 4 == 0:
            n.outputs[0].type = ir.TensorType(ir.DataType.FLOAT)
            n.outputs[0].shape = ir.Shape(["N", 2])
        if d % 5 == 0:
            g.outputs.append(n.outputs[0])
        if any(i is None for i in ins):
            c.flags.add("optional_io")
    elif k == 2 and g.initializers:  # another tensor implementation
        keys = list(g.initializers)
        v = g.initializers[keys[b % len(keys)]]
        kind = d % 7
        if kind == 5:  # sub-byte tensor over a transposed (Fortran-contiguous) view
            import ml_dtypes

            base_arr = np.array([[1, -4, 2], [-5, 3, -6]], dtype=np.int8).astype(ml_dtypes.int4)
            t = ir.Tensor(base_arr.T, dtype=ir.DataType.INT4)
        elif kind == 6:  # float tensor over a Fortran-ordered array
            t = ir.Tensor(np.asfortranarray(np.arange(6, dtype=np.float32).reshape(2, 3) + d))
        elif kind == 0:
            t = ir.Tensor(np.arange(6, dtype=np.float32).reshape(2, 3) * (1 + d))
        elif kind == 1:
            t = ir.PackedTensor(np.array([0x21, 0x43, 0x05], dtype=np.uint8), ir.DataType.INT4, shape=[5])
        elif kind == 2:
            inner = ir.Tensor(np.array([1, 2, 3], dtype=np.int64))
            t = ir.LazyTensor(lambda: inner, ir.DataType.INT64, ir.Shape([3]), cache=bool(d % 2))
        elif kind == 3:
            t = ir.StringTensor([b"a", b"", "é".encode()], shape=ir.Shape([3]))
        else:
            t = ir.ExternalTensor("w.bin", 8, 24, ir.DataType.FLOAT, shape=ir.Shape([2, 3]), name=v.name)
        v.const_value = t
        v.type = ir.TensorType(t.dtype) if v.type is not None else None
        v.shape = ir.Shape(t.shape.numpy()) if v.shape is not None else None
        c.flags.add("tensor_class")
    elif k == 3 and nodes:  # drop type and shape
        n = nodes[b % len(nodes)]
        if n.outputs:
            o = n.outputs[d % len(n.outputs)]
            o.type = None
            if d % 3:  # otherwise keep a shape without a type: it cannot be written, but serializing must not touch it
                o.shape = None
            elif o.shape is None:
                o.shape = ir.Shape([2, "M"])
    elif k == 4 and nodes:  # rename value / node to a fresh name
        n = nodes[b % len(nodes)]
        if d % 2 and n.outputs:
            o = n.outputs[d % len(n.outputs)]
            if o.name:
                o.name = c.fresh("r")
        else:
            n.name = c.fresh("rn")
    elif k == 5 and nodes:  # None input
        n = nodes[b % len(nodes)]
        n.resize_inputs(len(n.inputs) + 1 + d % 2)
        c.flags.add("optional_io")
    elif k == 6 and nodes:  # extra outputs, unnamed ('') trailing or in the middle
        n = nodes[b % len(nodes)]
        k0 = len(n.outputs)
        n.resize_outputs(k0 + 1 + d % 2)
        for j, o in enumerate(n.outputs[k0:]):
            o.name = "" if (d + j) % 2 == 0 else c.fresh("x")
        c.flags.add("optional_io")
    elif k == 7 and nodes:  # remove an unused node
        n = nodes[b % len(nodes)]
        try:
            g.remove(n, safe=True)
        except ValueError:
            pass
    elif k == 8:  # doc strings / metadata
        tgt = [c.model, g] + nodes[:2] + [o for n in nodes[:2] for o in n.outputs if o.name]  # '' names nothing on the wire
        x = tgt[b % len(tgt)]
        if d % 3 == 0:
            x.doc_string = ["", "doc ü", None][d % 3]
        else:
            x.metadata_props[f"k{d % 3}"] = f"val{d}"
    elif k == 9 and len(nodes) >= 2:  # replace_all_uses_with inside one graph
        outs = [o for n in nodes for o in n.outputs if o.name]
        if len(outs) >= 2:
            x, y = outs[b % len(outs)], outs[d % len(outs)]
            if x is not y and not x.is_graph_output():
                x.replace_all_uses_with(y)
    elif k == 10 and nodes:  # nested graph capturing outer values
        outer = [o for n in nodes for o in n.outputs if o.name] + [v for v in g.inputs if v.name]
        if outer:
            cap = outer[b % len(outer)]
            inner = ir.Node("", "Identity", [cap], num_outputs=1, name=c.fresh("in"))
            inner.outputs[0].name = c.fresh("iv")
            sub = ir.Graph([], [inner.outputs[0]], nodes=[inner], name=c.fresh("sub"))
            more = []
            if d % 2:
                # a list-of-graphs attribute: one empty graph and one whose nodes capture outer values too
                cap2 = outer[(b + d) % len(outer)]
                m1 = ir.Node("", "Add", [cap, cap2], num_outputs=1, name=c.fresh("mn"))
                m1.outputs[0].name = c.fresh("mv")
                more = [ir.AttrGraphs("more", [ir.Graph([], [], nodes=[], name=c.fresh("e")), ir.Graph([], [m1.outputs[0]], nodes=[m1], name=c.fresh("m"))])]
                c.flags.add("graphs_attr_capture")
            holder = ir.Node("", "If", [cap], [ir.AttrGraph("then_branch", sub)] + more,
                             num_outputs=1, name=c.fresh("h"))
            holder.outputs[0].name = c.fresh("hv")
            g.append(holder)
            c.flags.add("nested_capture")
    elif k == 11 and nodes:  # attribute edits
        n = nodes[b % len(nodes)]
        n.attributes.add([ir.AttrInt64("c03_i", d), ir.AttrFloat32s("c03_fs", [0.5, float(d)]), ir.AttrString("c03_s", "sü"),
                          ir.AttrTensor("c03_t", ir.tensor([1, 2], dtype=ir.DataType.INT64, name="tt"))][d % 4])
    elif k == 12:  # graph input / output edits
        if d % 2:
            v = ir.Value(name=c.fresh("gi"), type=ir.TensorType(ir.DataType.INT32), shape=ir.Shape([None, 3]))
            g.inputs.append(v)
        elif nodes:
            n = nodes[b % len(nodes)]
            if n.outputs and n.outputs[0].name and not n.outputs[0].is_graph_output() and n.outputs[0].graph is g:
                g.outputs.append(n.outputs[0])
    elif k == 13 and not any(g is f.graph or g in list(f.graph.subgraphs()) for f in c.model.functions.values()):
        # new initializer (a FunctionProto has no initializers, so never inside a function body)
        v = ir.Value(name=c.fresh("init"), const_value=ir.tensor([1.5, 2.5], name="other_name"))
        if d % 2:
            v.type = ir.TensorType(ir.DataType.FLOAT)
            v.shape = ir.Shape([2])
        if d % 5 == 4 and nodes and getattr(c, "allow_pending", True):
            # an initializer entry whose data is not attached (stripped / late-bound weights): described, consumed, no tensor
            v = ir.Value(name=c.fresh("pending"), type=ir.TensorType(ir.DataType.FLOAT), shape=ir.Shape([2, "K"]))
            if b % 2:
                v.doc_string = "weights bound later"
                v.metadata_props["source"] = "stripped"
            c.flags.add("initializer_without_data")
        g.initializers.add(v)
        if nodes:
            n = nodes[b % len(nodes)]
            n.resize_inputs(len(n.inputs) + 1)
            n.replace_input_with(len(n.inputs) - 1, v)


    elif k == 14 and nodes and c.model.ir_version >= 11:  # device annotation on a node of ANY graph (nested, function body)
        cfgs = list(c.model.device_configurations)
        if not cfgs or d % 5 == 0:
            nd = 1 + d % 3
            cfgs.append(c.model.add_device_configuration(c.fresh("cfg"), num_devices=nd, device_names=[f"dev{i}" for i in range(nd)] if d % 2 else ()))
        cfg = cfgs[b % len(cfgs)]
        n = nodes[d % len(nodes)]
        n.set_pipeline_stage(cfg, d % 3)
        ranked = [v for v in list(n.inputs) + list(n.outputs) if v is not None and v.name and v.shape is not None and len(v.shape) >= 1]
        if ranked and d % 2:
            n.shard(ranked[b % len(ranked)], configuration=cfg, axis=0, num_shards=2, device_indices=list(range(min(2, cfg.num_devices))))
        c.flags.add("device_annotation" + ("_nested" if g is not c.model.graph and all(g is not f.graph for f in c.model.functions.values()) else ""))
    elif k == 15:  # edit the metadata of a tensor (initializer or TENSOR attribute), whatever class it has
        tensors = [v.const_value for v in g.initializers.values() if v.const_value is not None]
        tensors += [a.value for n in nodes for a in n.attributes.values() if not a.is_ref() and a.type == ir.AttributeType.TENSOR and a.value is not None]
        if tensors:
            t = tensors[b % len(tensors)]
            md = t.metadata_props
            if d % 3 == 0:
                md.clear()
                c.flags.add("tensor_metadata_cleared")
            elif d % 3 == 1 and len(md):
                md.pop(sorted(md)[0])
            else:
                md[f"c03k{d % 2}"] = f"v{d}"
            c.flags.add("tensor_metadata_edit")
    elif k == 16 and nodes:  # an inner value takes the name of an outer value it does not see (legal shadowing)
        subs = [sg for n in nodes for a in n.attributes.values() if not a.is_ref() and a.type in (ir.AttributeType.GRAPH, ir.AttributeType.GRAPHS)
                for sg in ([a.value] if a.type == ir.AttributeType.GRAPH else list(a.value))]
        subs = [sg for sg in subs if len(sg)]
        outer = [o for n in nodes for o in n.outputs if o.name] + [v for v in g.inputs if v.name] + [v for v in g.initializers.values() if v.name]
        if subs and outer:
            sg = subs[b % len(subs)]
            w = outer[d % len(outer)]
            deep = list(ir.traversal.RecursiveGraphIterator(sg))
            names_inside = {v.name for n in deep for v in list(n.inputs) + list(n.outputs) if v is not None}
            for sgg in [sg] + list(sg.subgraphs()):
                names_inside |= {v.name for v in list(sgg.inputs) + list(sgg.initializers.values()) + list(sgg.outputs)}
            if w.name not in names_inside:  # w neither captured nor otherwise named inside
                inner_vals = [o for n in sg for o in n.outputs if o.name and not o.is_initializer()]
                if inner_vals:
                    iv = inner_vals[(b + d) % len(inner_vals)]
                    iv.name = w.name
                    c.flags.add("shadowing")
                    if c.model.ir_version >= 11 and d % 2 and iv.producer() is not None:
                        # ... and its producer is annotated on it: the reference is by identity, the wire format by name
                        cfgs = list(c.model.device_configurations) or [c.model.add_device_configuration(c.fresh("cfg"), num_devices=2)]
                        pn = iv.producer()
                        try:
                            pn.shard(iv, configuration=cfgs[b % len(cfgs)], axis=0, num_shards=2) if (iv.shape is None or len(iv.shape) >= 1) else pn.set_pipeline_stage(cfgs[0], 1)
                            c.flags.add("annotation_on_shadowing_value")
                        except ValueError:
                            pass


    elif k == 18 and len(g.initializers) >= 2:  # tied weights: two differently named initializers of one graph hold ONE tensor object
        keys = list(g.initializers)
        src, dst = g.initializers[keys[b % len(keys)]], g.initializers[keys[d % len(keys)]]
        if src is not dst and src.const_value is not None:
            dst.const_value = src.const_value
            dst.type = ir.TensorType(src.const_value.dtype) if dst.type is not None else None
            dst.shape = ir.Shape(src.const_value.shape.numpy()) if dst.shape is not None else None
            c.flags.add("tied_initializers")
    elif k == 17 and nodes:  # an input of a node nested at any depth (GRAPH or GRAPHS attribute) is rewired to an outer value
        holders = [(n, a) for n in nodes for a in n.attributes.values() if not a.is_ref() and a.type in (ir.AttributeType.GRAPH, ir.AttributeType.GRAPHS)]
        if holders:
            hn, a_ = holders[b % len(holders)]
            subs = [a_.value] if a_.type == ir.AttributeType.GRAPH else list(a_.value)
            deep = [n for sg in subs if sg is not None for n in ir.traversal.RecursiveGraphIterator(sg) if n.inputs]
            outer = [o for n in nodes for o in n.outputs if o.name and n is not hn] + [v for v in g.inputs if v.name] + [v for v in g.initializers.values() if v.name]
            if deep and outer:
                tgt = deep[d % len(deep)]
                w = outer[(b + d) % len(outer)]
                # the name must mean the outer value everywhere between its graph and the consumer: not redefined on the way
                chain = _chain_to(g, tgt.graph)  # graphs strictly below g down to the consumer's graph
                scope_names = set()
                for gg in chain or ():
                    scope_names |= {v.name for v in list(gg.inputs) + list(gg.initializers.values())} | {o.name for n in gg for o in n.outputs}
                if chain is not None and w.name not in scope_names:
                    tgt.replace_input_with(d % len(tgt.inputs), w)
                    c.flags.add("nested_capture")
                    c.flags.add("rewired_capture" + ("_graphs_attr" if a_.type == ir.AttributeType.GRAPHS else ""))


def _capture_is_shadowed(model):
    """Does some node consume an outer value whose name is defined again on the way down to the consumer?  Such a model has
    no name-based (proto) form; edit sequences can reach it (shadow a name first, capture the outer value afterwards)."""
    import onnx_ir as ir

    def names_ids(g):
        vals = list(g.inputs) + list(g.initializers.values()) + [o for n in g for o in n.outputs]
        return {v.name for v in vals if v.name}, {id(v) for v in vals}

    def walk(g, stack):
        stack = stack + [names_ids(g)]
        for n in g:
            for v in n.inputs:
                if v is None or not v.name:
                    continue
                i = next((k for k in range(len(stack) - 1, -1, -1) if id(v) in stack[k][1]), None)
                if i is not None and any(v.name in stack[k][0] for k in range(i + 1, len(stack))):
                    return True
            for a in n.attributes.values():
                if a.is_ref():
                    continue
                subs = [a.value] if a.type == ir.AttributeType.GRAPH else list(a.value) if a.type == ir.AttributeType.GRAPHS else []
                if any(sg is not None and walk(sg, stack) for sg in subs):
                    return True
        return False

    return any(walk(g, []) for g in [model.graph] + [f.graph for f in model.functions.values()])


def execute(case):
    import onnx_ir as ir
    from vlib import iso, protogen, snapshot, wiring
    from vlib import universe as U

    try:
        mp, features = protogen.build_model(case["tape"], case.get("irv") or None, case.get("gen", 1))
        # keep the seed proto inside what IR->proto can express (no value_info for unknown names etc.)
        model = ir.from_proto(mp)
        # the model under test starts as a deserialized proto: its wiring is first held against the proto by the
        # independent scoping oracle (otherwise a deserializer fault would be compared with itself below)
        wiring0 = wiring.check(mp, model)
        c = Ctx(model)
        for op in case.get("ops", []):
            if not (isinstance(op, list) and len(op) == 4):
                return dict(failures=[], nontrivial=False, classes=["malformed"])
            apply_op(c, op)
    except (KeyError, TypeError, IndexError):
        return dict(failures=[], nontrivial=False, classes=["malformed"])
    except Exception as e:  # an edit raising is not this property's business
        return dict(failures=[], nontrivial=False, classes=[f"setup_raised_{type(e).__name__}"])
    if case.get("ops") and _capture_is_shadowed(model):
        return dict(failures=[], nontrivial=False, classes=["captured_value_shadowed_by_the_edits(no proto form, no claim)"])
    fails = []
    if wiring0:
        fails.append(("deserialized-wiring/seed", f"from_proto wired the generated proto wrongly: {wiring0[0]}"[:400]))
    u = U.Universe.from_model(model)
    before_iso = iso.model_iso(model)
    snap0 = _mask(snapshot.take(u))
    try:
        p1 = ir.to_proto(model)
    except Exception as e:
        import traceback

        tb = traceback.extract_tb(e.__traceback__)
        where = [f.name for f in tb if "onnx_ir" in f.filename][-1:] or ["?"]
        return dict(failures=[(f"to_proto-raised/{type(e).__name__}@{where[0]}", f"to_proto raised {type(e).__name__}: {e}"[:300])], nontrivial=True, classes=["raised"])
    snap1 = _mask(snapshot.take(u))
    if snap0 != snap1:
        fields = sorted({f"{kd}.{j}" for kd, j in snapshot.diff_fields(snap0, snap1)})
        fails.append((f"side-effect/{','.join(fields)[:60]}", f"to_proto changed the IR: {snapshot.diff(snap0, snap1)}"[:500]))
    fn_graphs = {id(f.graph) for f in model.functions.values()}
    inits_ = [v for g in c.graphs() if id(g) not in fn_graphs for v in g.initializers.values()]
    holders_ = {}  # one tensor object held by several initializers (tied weights) can carry only one of their names
    for v_ in inits_:
        if v_.const_value is not None:
            holders_.setdefault(id(v_.const_value), set()).add(v_.name)
    for v_ in inits_:
        if v_.const_value is not None and v_.const_value.name not in holders_[id(v_.const_value)]:
            fails.append(("initializer-tensor-name", f"after to_proto initializer {v_.name!r} has tensor named {v_.const_value.name!r}"))
            break
    p2 = ir.to_proto(model)
    if p1.SerializeToString(deterministic=True) != p2.SerializeToString(deterministic=True):
        from vlib import protocanon

        d = protocanon.first_diff(p1, p2)
        fails.append((f"not-idempotent/{d[0] if d else '?'}", f"serializing twice gives different protos: {d[1] if d else ''}"[:300]))
    if iso.model_iso(model) != before_iso:
        fails.append(("side-effect/iso", "structural description changed by serialization"))
    try:
        back = ir.from_proto(p1)
        w1 = wiring.check(p1, back)
        if w1:
            fails.append(("deserialized-wiring/roundtrip", f"from_proto(to_proto(model)) is wired differently from what the proto says: {w1[0]}"[:400]))
        after_iso = iso.model_iso(back, describe_undefined=iso.pending_names(before_iso))
        d = iso.first_difference(before_iso, after_iso)
        if d:
            fails.append((f"not-isomorphic/{d[0]}", d[1][:500]))
        else:
            # the deserialized model is the caller's own: after editing it in place (element types through the Value.dtype
            # setter, denotations, dimensions of unfrozen shapes) the same proto must still deserialize to the same model
            edited = 0
            for g_ in [back.graph] + [f.graph for f in back.functions.values()] + [sg for f in [back.graph] + [f.graph for f in back.functions.values()] for sg in f.subgraphs()]:
                for v_ in list(g_.inputs) + [o for n in g_ for o in n.outputs] + list(g_.initializers.values()):
                    try:
                        if isinstance(v_.type, ir.TensorType):
                            v_.dtype = ir.DataType.FLOAT16 if v_.dtype != ir.DataType.FLOAT16 else ir.DataType.INT8
                            v_.type.denotation = "edited"
                            edited += 1
                        if v_.shape is not None and not v_.shape.frozen and len(v_.shape):
                            v_.shape[0] = 97
                            v_.shape.set_denotation(0, "edited")
                            edited += 1
                    except Exception:
                        pass
            if edited:
                again_iso = iso.model_iso(ir.from_proto(p1), describe_undefined=iso.pending_names(before_iso))
                d = iso.first_difference(before_iso, again_iso)
                if d:
                    fails.append((f"second-deserialization-differs/{d[0]}", f"after the first deserialized model was edited in place, the same proto deserializes differently: {d[1]}"[:500]))
    except Exception as e:
        fails.append((f"from_proto-raised/{type(e).__name__}", f"from_proto(to_proto(model)) raised {type(e).__name__}: {e}"[:300]))
    n_nodes = sum(len(g) for g in u.graphs)
    feats = set(c.flags)
    if features & {"function"}:
        feats.add("function")
    if features & {"nested_graph"}:
        feats.add("nested_graph")
    if features & {"unsorted_nodes"}:
        feats.add("unsorted")
    if features & {"optional_input", "empty_output"}:
        feats.add("optional_io")
    nontrivial = n_nodes >= 3 and bool(feats & {"nested_capture", "function", "unsorted", "optional_io", "tensor_class", "nested_graph", "shadowing", "device_annotation_nested", "tensor_metadata_edit"})
    seen, out = set(), []
    for b_, m in fails:
        if b_ not in seen:
            seen.add(b_)
            out.append((b_, m))
    return dict(failures=out, nontrivial=nontrivial, classes=sorted(feats) + [f"ir{model.ir_version}"])


def _mask(snap):
    """Allowed side effect: an initializer tensor's own name is aligned with its value's name."""
    out = []
    for rec in snap:
        if rec[0] == "T":
            out.append(("T",))
        elif rec[0] == "V":
            c = rec[4]
            out.append(rec[:4] + ((c[0],) if c else None,) + rec[5:])
        else:
            out.append(rec)
    return out


def selftest():
    from vlib import wiring

    wiring.selftest()

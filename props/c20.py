"""C20 - journaling observes without interfering and always restores the classes."""

from __future__ import annotations

import contextlib
import gc
import re

ID = "C20"
LEVEL = "exploration"
TECHNIQUE = (
    "differential property-based testing: a generated operation script (the C01 edit alphabet) is executed once "
    "without and once inside properly nested Journal contexts (depth 0-3, optionally left by an exception, fresh Journal objects or long-lived ones used again at another depth); outcomes, "
    "final snapshots, the entry sequence (against a harness-side ground-truth log slipped under the journal's wrappers), "
    "class restoration (identity of every instrumented attribute) and weak-reference hygiene are compared"
)
LEVEL_TEXT = (
    "Generated-history exploration with a control run as oracle. The set of instrumented attributes is discovered "
    "behaviourally (class attributes whose identity changes while a journal is active), so the check follows the code "
    "when operations are added."
)
TRUSTED = "control run of the same script in a fresh universe; harness logging wrappers; gc"
RULE = (
    "case = universe setup + segments; each segment = nesting depth 0-3, list of ops from the C01 alphabet (constructors, "
    "graph/node/value/collection mutators, setters, constants that cannot be printed, lazily evaluated constants whose evaluation "
    "count is part of the compared state, a long-lived Tape per graph), and whether a harness exception is thrown out of the with-blocks. "
    "Non-trivial = >=1 instrumented call inside >=1 journal and (depth>=2, or an exception left a block, or a rejected "
    "call happened inside). distinct = case JSON."
)
ASSUMPTIONS = [
    "entries recorded for operations that then raised are tolerated (the wrappers record before calling); the statement constrains completed operations",
    "exceptions are compared by type (messages of multi-element calls depend on set iteration order of object ids)",
]
BUDGET = {"quick": (16, 260), "thorough": (16, 6000)}


class HarnessBoom(Exception):
    pass


def strategy(tier, phase):
    from hypothesis import strategies as st

    from vlib import universe as U

    names = list(U.DEFAULT_OPS) + list(U.SETTER_OPS) * 3
    seg = st.fixed_dictionaries({"depth": st.integers(0, 2), "inner": st.integers(0, 2), "boom": st.sampled_from([False, False, True]),
                                 "reuse": st.sampled_from([0, 0, 1, 2, 3, 5, 6]),
                                 "ops": st.lists(U.op_strategy(names), min_size=1, max_size=9)})
    return st.fixed_dictionaries({"setup": st.integers(0, 1), "segments": st.lists(seg, min_size=1, max_size=5)})


# ------------------------------------------------------------------------------------------------
_INSTRUMENTED = None


def _class_table():
    from onnx_ir import _core, _graph_containers

    out = []
    for mod in (_core, _graph_containers):
        for name, obj in vars(mod).items():
            if isinstance(obj, type) and str(getattr(obj, "__module__", "")).startswith("onnx_ir") and obj not in out:
                out.append(obj)
    return out


def _ident(cls, name):
    a = cls.__dict__.get(name)
    if isinstance(a, property):
        return ("prop", a.fget, a.fset)
    return ("attr", a)


def discover():
    """(cls, attr, kind) of everything a Journal replaces while active."""
    global _INSTRUMENTED
    if _INSTRUMENTED is not None:
        return _INSTRUMENTED
    from onnx_ir.journaling import Journal

    classes = _class_table()
    before = {(c, n): _ident(c, n) for c in classes for n in list(c.__dict__)}
    found = []
    with Journal():
        for (c, n), old in before.items():
            new = _ident(c, n)
            if new[0] == "prop":
                if new[2] is not old[2]:
                    found.append((c, n, "fset"))
            elif new[1] is not old[1]:
                found.append((c, n, "method"))
    _INSTRUMENTED = found
    return found


def _target_of(self_obj):
    """Object a container method is recorded on (the owning graph / node); self otherwise."""
    from onnx_ir import _graph_containers as gc_

    if isinstance(self_obj, (gc_._GraphIO, gc_.GraphInitializers)):
        return getattr(self_obj, "_graph", self_obj)
    if isinstance(self_obj, gc_.Attributes):
        return getattr(self_obj, "_owner", self_obj)
    return self_obj


class Instrument:
    """Slip completion/start-logging wrappers UNDER the attributes a Journal wraps."""

    def __init__(self, log):
        self.log = log
        self.saved = []
        self.installed = {}

    def __enter__(self):
        for cls, name, kind in discover():
            orig = cls.__dict__[name]
            key = f"{cls.__name__}.{name}"
            if kind == "fset":
                fset = orig.fset

                def hw(self_, value, _f=fset, _k=key):
                    self.log.append((_k, id(_target_of(self_)), type(_target_of(self_)).__name__))
                    return _f(self_, value)

                new = property(orig.fget, hw, orig.fdel, orig.__doc__)
                self.installed[(cls, name)] = ("fset", hw)
            elif name == "__init__":

                def hw(self_, *a, _f=orig, _k=key, **k):
                    r = _f(self_, *a, **k)
                    self.log.append((_k, id(self_), type(self_).__name__))  # logged on completion
                    return r

                new = hw
                self.installed[(cls, name)] = ("method", hw)
            else:

                def hw(self_, *a, _f=orig, _k=key, **k):
                    t = _target_of(self_)
                    self.log.append((_k, id(t), type(t).__name__))  # logged at call start (the journal records before calling)
                    return _f(self_, *a, **k)

                new = hw
                self.installed[(cls, name)] = ("method", hw)
            self.saved.append((cls, name, orig))
            setattr(cls, name, new)
        return self

    def restored(self):
        """Names whose class attribute is not (by identity) what was installed before entering the journal."""
        bad = []
        for (cls, name), (kind, hw) in self.installed.items():
            cur = cls.__dict__.get(name)
            if kind == "fset":
                if not isinstance(cur, property) or cur.fset is not hw:
                    bad.append(f"{cls.__name__}.{name}")
            elif cur is not hw:
                bad.append(f"{cls.__name__}.{name}")
        return bad

    def __exit__(self, *exc):
        for cls, name, orig in self.saved:
            setattr(cls, name, orig)
        return False


_MASK = re.compile(r"(0x[0-9a-fA-F]+|anonymous(_node)?:\d+|id=\d+|\b\d{9,}\b)")


def _norm_exc(e):
    if e is None:
        return None
    # the exception type only: which of several offending elements a multi-element call reports first
    # depends on set iteration order (hash of object ids), which is not journaling's business
    return (type(e).__name__,)


def run_script(case, journaled):
    """Returns dict(outcomes, snapshot, journals=[(entries, events_while_active)], restore_problems, universe)."""
    from onnx_ir.journaling import Journal

    from vlib import snapshot
    from vlib import universe as U

    u = U.Universe(case.get("setup", 1), safe=True)
    outcomes = []
    journals = []
    problems = []
    stats = dict(inside=0, rejected_inside=0, maxdepth=0, boom=False)
    log = []
    pool = [Journal(), Journal()]
    used_once = []
    active = []
    for si, seg in enumerate(case["segments"]):
        depth = seg["depth"] % 3
        inner = seg.get("inner", 0) % 3
        if depth + inner > 3:
            inner = 3 - depth
        will_boom = bool(seg.get("boom")) and (depth + inner) > 0  # same control flow in the control run
        if not journaled:
            depth = inner = 0
        ops = seg["ops"]
        third = max(1, len(ops) // 3)
        parts = [ops[:third], ops[third: 2 * third], ops[2 * third:]]

        def run(part, level):
            for op in part:
                n0 = len(log)
                rets = []
                exc = U.run_op(u, op, rets)
                u.sweep()
                ret = rets[0] if rets else None
                outcomes.append((_norm_exc(exc), u.idx(ret) if ret is not None and not isinstance(ret, (int, str, bool)) else repr(ret)))
                if level:
                    stats["inside"] += len(log) - n0
                    if exc is not None:
                        stats["rejected_inside"] += 1

        with contextlib.ExitStack() as outer:
            inst = outer.enter_context(Instrument(log)) if journaled else None
            closed = []
            opened = []

            class _J:
                """Journal + the slice of ground-truth events logged while it was active."""

                def __init__(self):
                    # a Journal object may be used again after it was left (its entries accumulate): bit k of "reuse"
                    # makes the k-th journal of the segment one of two long-lived objects, if that one is not active now
                    k = len(opened)
                    cand = pool[k % 2]
                    if (seg.get("reuse", 0) >> k) & 1 and not any(o.j is cand for o in active):
                        self.j = cand
                        stats["reused"] = stats.get("reused", 0) + (1 if len(cand.entries) or cand in used_once else 0)
                        used_once.append(cand)
                    else:
                        self.j = Journal()

                def __enter__(self):
                    self.n0 = len(self.j.entries)
                    self.j.__enter__()
                    self.start = len(log)
                    opened.append(self)
                    active.append(self)
                    return self

                def __exit__(self, *a):
                    r = self.j.__exit__(*a)
                    active.remove(self)
                    closed.append((self.j, list(log[self.start:]), self.n0, len(self.j.entries)))
                    return r

            try:
                with contextlib.ExitStack() as stack:
                    for _ in range(depth):
                        stack.enter_context(_J())
                    stats["maxdepth"] = max(stats["maxdepth"], depth + inner)
                    run(parts[0], depth)
                    with contextlib.ExitStack() as stack2:
                        for _ in range(inner):
                            stack2.enter_context(_J())
                        run(parts[1], depth + inner)
                        if will_boom:
                            stats["boom"] = True
                            raise HarnessBoom()
                    if inner and depth:
                        # the outer journals must still be wired after the inner ones were left
                        bad_mid = [f"{c.__name__}.{n}" for (c, n), (kind, hw) in inst.installed.items()
                                   if (c.__dict__[n].fset if kind == "fset" else c.__dict__[n]) is hw]
                        if bad_mid:
                            problems.append((si, -1, bad_mid[:5]))
                    run(parts[2], depth)
            except HarnessBoom:
                pass
            if journaled:
                bad = inst.restored()
                if bad:
                    problems.append((si, depth + inner, bad[:5]))
                journals.extend(closed)
    snap = snapshot.take(u, with_ids=False)
    # (how often the functions of lazy constants were called belongs to the state: the user's code observes it)
    snap.append(("lazy-evaluations", getattr(u, "lazy_calls", 0)))
    return dict(outcomes=outcomes, snapshot=snap, journals=journals, problems=problems, stats=stats, u=u)


def execute(case):
    from vlib import snapshot
    from vlib import universe as U

    try:
        discover()
        for seg in case["segments"]:
            for op in seg["ops"]:
                if not isinstance(op, list) or not op or op[0] not in U.ALPHABET or len(op) - 1 != len(U.ALPHABET[op[0]][0]):
                    return dict(failures=[], nontrivial=False, classes=["malformed"])
        pristine = {(c, n): _ident(c, n) for c, n, _ in discover()}
        control = run_script(case, journaled=False)
        jr = run_script(case, journaled=True)
    except (KeyError, TypeError, U.Malformed):
        return dict(failures=[], nontrivial=False, classes=["malformed"])
    fails = []
    # 1. same outcomes, same final state
    if control["outcomes"] != jr["outcomes"]:
        i = next((k for k, (a, b) in enumerate(zip(control["outcomes"], jr["outcomes"])) if a != b), None)
        fails.append(("different-outcome", f"op #{i}: without journal {control['outcomes'][i] if i is not None else None} vs inside {jr['outcomes'][i] if i is not None else None}"[:400]))
    elif control["snapshot"] != jr["snapshot"]:
        fails.append(("different-final-state", f"final IR state differs: {snapshot.diff(control['snapshot'], jr['snapshot'])}"[:500]))
    # 2. restoration
    for si, depth, bad in jr["problems"]:
        if depth == -1:
            fails.append(("outer-journal-unwired-by-inner-exit", f"segment {si}: after leaving the inner journals, {bad} are back to the un-journaled attribute although outer journals are still active"))
        else:
            fails.append(("classes-not-restored", f"after leaving {depth} nested journal(s) in segment {si}: {bad} not restored to the pre-journal attribute"))
    after = {(c, n): _ident(c, n) for c, n, _ in discover()}
    for k in pristine:
        a, b = pristine[k], after[k]
        same = (a[0] == b[0]) and ((a[0] == "prop" and a[1] is b[1] and a[2] is b[2]) or (a[0] == "attr" and a[1] is b[1]))
        if not same:
            fails.append(("classes-not-restored-final", f"{k[0].__name__}.{k[1]} differs from the pristine attribute after all journals were left"))
            break
    # 3. entries vs ground-truth events
    op_of_attr, attr_of_op = {}, {}
    for j, events, n0, n1 in jr["journals"]:
        entries = list(j.entries)[n0:n1]
        if len(entries) != len(events):
            fails.append(("entry-count", f"journal recorded {len(entries)} entries for {len(events)} instrumented calls; first entries {[e.operation + ':' + e.class_name for e in entries[:6]]} events {[e[0] for e in events[:6]]}"[:500]))
            continue
        for e, (attr, oid, cname) in zip(entries, events):
            if e.object_id != oid or e.class_name != cname:
                fails.append(("entry-order-or-object", f"entry {e.operation} on {e.class_name}#{e.object_id} does not match call {attr} on {cname}#{oid} at the same position"))
                break
            if op_of_attr.setdefault(attr, e.operation) != e.operation:
                fails.append(("operation-name-inconsistent", f"{attr} recorded as {op_of_attr[attr]!r} and {e.operation!r}"))
                break
    # 4. weak references
    journals = []
    for j, _, _, _ in jr["journals"]:
        if not any(j is x for x in journals):
            journals.append(j)
    entries = [e for j in journals for e in j.entries]
    leaked_types = set()
    from onnx_ir import _core

    for e in entries:
        for f in (e.timestamp, e.operation, e.class_name, e.object_id, e.details):
            if isinstance(f, (_core.Node, _core.Value, _core.Graph, _core.Model, _core.Function)):
                leaked_types.add(type(f).__name__)
    if leaked_types:
        fails.append(("entry-holds-ir-object", f"entry fields hold IR objects: {sorted(leaked_types)}"))
    nontrivial = jr["stats"]["inside"] > 0 and (jr["stats"]["maxdepth"] >= 2 or jr["stats"]["boom"] or jr["stats"]["rejected_inside"] > 0)
    classes = [f"depth{jr['stats']['maxdepth']}"]
    if jr["stats"]["boom"]:
        classes.append("left_by_exception")
    if jr["stats"]["rejected_inside"]:
        classes.append("rejected_call_inside")
    if jr["stats"].get("reused"):
        classes.append("journal_object_used_again")
    n_entries = len(entries)
    del control, entries
    jr["u"] = None
    jr["snapshot"] = None
    jr_j = jr["journals"]
    jr.clear()
    gc.collect()
    alive = 0
    for j in {id(x[0]): x[0] for x in jr_j}.values():
        for e in j.entries:
            if e.ref is not None and e.ref() is not None:
                alive += 1
    if alive:
        fails.append(("entries-keep-objects-alive", f"{alive} of {n_entries} entries still reach their object after all IR objects were dropped and gc ran"))
    seen, out = set(), []
    for b_, m in fails:
        if b_ not in seen:
            seen.add(b_)
            out.append((b_, m))
    return dict(failures=out, nontrivial=nontrivial, classes=classes)

"""C04 - all tensor representations agree on values and bytes for every dtype/shape."""

from __future__ import annotations

import io
import os
import shutil
import tempfile

import numpy as np

from vlib import refenc

ID = "C04"
LEVEL = "exploration"
TECHNIQUE = (
    "property-based differential testing: the finite grid element type x representation x storage field x "
    "shape x file placement is enumerated for every generated bit-pattern pool (Hypothesis draws the "
    "patterns), each representation compared with an independent bit-level reference codec and with "
    "onnx.numpy_helper"
)
LEVEL_TEXT = (
    "Exhaustive over the dtype x representation x shape x destination grid for every generated value pool; "
    "sampled over element bit patterns (special patterns - zero, sign bit, all ones, inf/NaN payloads - are "
    "forced into every pool). The oracle is an independent integer-arithmetic codec, cross-checked against "
    "onnx.numpy_helper per case."
)
TRUSTED = "refenc (bit-level codec written for this check), onnx.numpy_helper, numpy, ml_dtypes"
RULE = (
    "case = (element type, pool of generated bit patterns, file offset/padding/seek); execute() enumerates "
    "ALL shapes x ALL representations legal for that type (Tensor over ml_dtypes/native array, Tensor over "
    "unpacked uint8/int8/uint16 view, PackedTensor, TensorProtoTensor via raw_data and via each legal typed "
    "field, ExternalTensor at offset 0/odd/large with payload mid-file or at end of file and length "
    "given/None, LazyTensor cache on/off, TorchTensor, ir.tensor(list|array|TensorProto), "
    "serialize->deserialize) and checks dtype/shape/size/nbytes, numpy() bit patterns, tobytes(), and "
    "tofile() into a fresh file, between header and trailer, into an r+b file after seek, into an append-mode file, and into BytesIO "
    "at a non-zero position. evaluations = sub-cases (type,representation,shape). Non-trivial sub-case = "
    "size>=1 and (sub-byte type with size not a multiple of elements-per-byte, or non-native type, or "
    "non-zero file offset, or typed-field storage, or a non-finite/special pattern). distinct = distinct "
    "(type, representation, shape, pattern hash)."
)
ASSUMPTIONS = [
    "little-endian host",
    "BOOL patterns restricted to 0/1 (other byte values are not legal ONNX bool data)",
    "typed storage fields are used only for the element types onnx.proto allows for them",
]
BUDGET = {"quick": (16, 16), "thorough": (16, 440)}
PHASES = ["main", "large"]
PHASE_WEIGHTS = {"main": 0.875, "large": 0.75}  # (large cases are cheap: 12 per shard in the quick tier)

SHAPES = [[], [0], [1], [3], [5], [7], [2, 3], [1, 1, 1, 3], [2, 0, 3], [1, 2, 1, 2, 1, 2]]
NUMERIC = [c for c in refenc.DT]


def strategy(tier, phase):
    from hypothesis import strategies as st

    # large tensors: byte counts around the sizes at which copy loops, kernel copies and memory maps change behaviour
    large = st.fixed_dictionaries({"large": st.fixed_dictionaries({
        "n": st.sampled_from([(1 << 20) - 1, 1 << 20, (1 << 20) + 1, (1 << 20) + (1 << 19) + 3, 2 << 20, (3 << 20) - 5, 65536, 65537]),
        "off": st.sampled_from([0, 1, 4096, 4099, (1 << 20) + 7]), "tail": st.sampled_from([0, 9, 5000]), "dtype": st.sampled_from([2, 1, 22, 10]),
        "seed": st.integers(0, 250), "seek": st.sampled_from([0, 3, 4096])})})
    if phase == "large":
        return large
    return st.fixed_dictionaries(
        {
            "dtype": st.sampled_from(NUMERIC + [8]),
            "pool": st.lists(st.integers(0, (1 << 130) - 1), min_size=7, max_size=24),
            "off": st.sampled_from([0, 1, 3, 7, 64, 4096, 4099]),
            "tail": st.sampled_from([0, 0, 1, 5]),
            "seek": st.integers(0, 9),
        }
    )


# ------------------------------------------------------------------------------------------------
def _patterns(code, pool, n):
    b, kind = refenc.DT[code]
    mask = (1 << b) - 1
    sp = refenc.special_patterns(code)
    out = []
    for i in range(n):
        s = pool[i % len(pool)] + i // len(pool)
        if kind == "b":
            out.append(s & 1)
        elif s % 3 == 0:
            out.append(sp[(s // 3) % len(sp)])
        else:
            out.append((s // 3) & mask)
    return out


def _np_dtype(ir, code):
    return ir.DataType(code).numpy()


def _expected_array(ir, code, shape, pats):
    """numpy array with the library's declared numpy dtype holding exactly these bit patterns."""
    b, kind = refenc.DT[code]
    dt = np.dtype(_np_dtype(ir, code))
    if b >= 8:
        raw = refenc.encode(code, pats)
        return np.frombuffer(raw, dtype=dt.newbyteorder("<") if dt.itemsize > 1 else dt).reshape(shape)
    # sub-byte: one element per byte (ml_dtypes storage = low bits)
    return np.array(pats, dtype=np.uint8).view(dt).reshape(shape)


def _bits_of(arr, code):
    """Bit patterns (python ints) of the elements of a numpy array returned by the library."""
    b, kind = refenc.DT[code]
    a = np.ascontiguousarray(arr)
    if b >= 8:
        if b == 128:
            v = a.reshape(-1).view(np.uint64)
            return [int(v[2 * i]) | (int(v[2 * i + 1]) << 64) for i in range(a.size)]
        u = {8: np.uint8, 16: np.uint16, 32: np.uint32, 64: np.uint64}[b]
        if a.dtype.itemsize * 8 != b:
            raise ValueError(f"itemsize {a.dtype.itemsize} for bitwidth {b}")
        return [int(x) for x in a.reshape(-1).view(u)]
    if a.dtype.itemsize != 1:
        raise ValueError(f"sub-byte array has itemsize {a.dtype.itemsize}")
    if kind == "f":
        return [int(x) & ((1 << b) - 1) for x in a.reshape(-1).view(np.uint8)]
    # integers: by value, so that any storage convention of the unpacked byte is accepted
    vals = a.reshape(-1).astype(np.int32)
    return [int(x) & ((1 << b) - 1) for x in vals]


def dclass(code):
    b, kind = refenc.DT[code]
    if b < 8:
        return f"{b}bit"
    if code in (17, 18, 19, 20, 24):
        return "fp8"
    if code == 16:
        return "bf16"
    return {"c": "complex", "b": "bool"}.get(kind, "native")


TYPED_FIELD = {
    1: "float_data", 14: "float_data", 11: "double_data", 15: "double_data", 7: "int64_data",
    12: "uint64_data", 13: "uint64_data",
}
for _c in (2, 3, 4, 5, 6, 9, 10, 16, 17, 18, 19, 20, 21, 22, 23, 24, 25, 26):
    TYPED_FIELD[_c] = "int32_data"


def _typed_proto(onnx, code, shape, pats, ref_bytes):
    b, kind = refenc.DT[code]
    t = onnx.TensorProto(data_type=code, dims=shape, name="t")
    field = TYPED_FIELD[code]
    if field == "float_data":
        t.float_data.extend(np.frombuffer(ref_bytes, dtype="<f4").tolist())
        # protobuf float fields round-trip float32 exactly except NaN payloads -> compare later by value
    elif field == "double_data":
        t.double_data.extend(np.frombuffer(ref_bytes, dtype="<f8").tolist())
    elif field == "int64_data":
        t.int64_data.extend(np.frombuffer(ref_bytes, dtype="<i8").tolist())
    elif field == "uint64_data":
        t.uint64_data.extend([int(p) for p in pats])
    else:
        if b < 8:
            t.int32_data.extend(list(ref_bytes))  # packed bytes, one per int32
        elif kind == "i":
            t.int32_data.extend([refenc.int_value(code, p) for p in pats])
        else:
            t.int32_data.extend([int(p) for p in pats])
    return t


def _nan_safe_for_typed(code, pats):
    """float_data/double_data go through python floats: NaN payload bits are not guaranteed by protobuf."""
    return True


def build_reps(ir, onnx, serde, code, shape, pats, ref_bytes, tmpdir, case, cleanup):
    """Yield (rep_name, tensor, flags)."""
    b, kind = refenc.DT[code]
    dtype = ir.DataType(code)
    exp = _expected_array(ir, code, shape, pats)
    size = len(pats)
    yield "tensor_native", ir.Tensor(exp.copy(), dtype=dtype, name="t"), {}
    if kind != "c" and dtype.name in ("BFLOAT16",) or (b <= 8 and code not in (2, 3, 9)):
        # documented alternative: plain integer arrays holding the bit pattern / sign-extended value
        if b == 16:
            arr = np.array(pats, dtype=np.uint16).reshape(shape)
        elif kind == "i":
            arr = np.array([refenc.int_value(code, p) for p in pats], dtype=np.int8).reshape(shape)
        else:
            arr = np.array(pats, dtype=np.uint8).reshape(shape)
        yield "tensor_unpacked", ir.Tensor(arr, dtype=dtype, name="t"), {"nonnative": True}
    # memory layouts of the backing array: the logical (row-major) content is the same, the strides are not
    if len(shape) >= 2 and size > 1:
        yield "tensor_fortran_order", ir.Tensor(np.asfortranarray(exp.copy()), dtype=dtype, name="t"), {"layout": True}
        tview = np.ascontiguousarray(exp.T).T  # a transposed view: equal to exp, Fortran-contiguous
        yield "tensor_transposed_view", ir.Tensor(tview, dtype=dtype, name="t"), {"layout": True}
    if size > 0 and len(shape) >= 1:
        big = np.zeros(tuple(shape[:-1]) + (shape[-1] * 2,), dtype=exp.dtype)
        big[..., ::2] = exp
        yield "tensor_strided_view", ir.Tensor(big[..., ::2], dtype=dtype, name="t"), {"layout": True}
    if b in (2, 4):
        yield "packed", ir.PackedTensor(np.frombuffer(ref_bytes, dtype=np.uint8).copy(), dtype, shape=shape, name="t"), {}
        # the packed bytes in other array shapes / memory layouts (the constructor only asks for the right byte count):
        # rows x bytes-per-row as a weight packed along its last axis would be, a column, and a strided view
        pbytes = np.frombuffer(ref_bytes, dtype=np.uint8).copy()
        nb = len(ref_bytes)
        if nb >= 2:
            rows = 2 if nb % 2 == 0 else 1
            yield "packed_2d", ir.PackedTensor(pbytes.reshape(rows, nb // rows), dtype, shape=shape, name="t"), {"layout": True}
            yield "packed_column", ir.PackedTensor(pbytes.reshape(nb, 1), dtype, shape=shape, name="t"), {"layout": True}
        if nb >= 1:
            wide = np.zeros(nb * 2, dtype=np.uint8)
            wide[::2] = pbytes
            yield "packed_strided_view", ir.PackedTensor(wide[::2], dtype, shape=shape, name="t"), {"layout": True}
    praw = onnx.TensorProto(data_type=code, dims=shape, name="t", raw_data=ref_bytes)
    yield "proto_raw", serde.TensorProtoTensor(praw), {}
    yield "proto_typed_" + TYPED_FIELD[code], serde.TensorProtoTensor(_typed_proto(onnx, code, shape, pats, ref_bytes)), {"typed": True}
    # external placements
    for pi, (off, tail, given) in enumerate([(0, 0, False), (case["off"], case["tail"], True), (case["off"], 0, False), (3, 5, True)]):
        fn = f"ext_{pi}.bin"
        with open(os.path.join(tmpdir, fn), "wb") as f:
            f.write(b"\xa5" * off + ref_bytes + b"\x5a" * tail)
        et = ir.ExternalTensor(fn, off, len(ref_bytes) if given else None, dtype, shape=ir.Shape(shape), name="t", base_dir=tmpdir)
        cleanup.append(et)
        yield f"external_p{pi}", et, {"offset": off, "eof": tail == 0}
    base = ir.Tensor(exp.copy(), dtype=dtype, name="t")
    yield "lazy_nocache", ir.LazyTensor(lambda: base, dtype, ir.Shape(shape), cache=False, name="t"), {}
    yield "lazy_cache", ir.LazyTensor(lambda: ir.Tensor(exp.copy(), dtype=dtype), dtype, ir.Shape(shape), cache=True, name="t"), {}
    if any(ref_bytes):
        # a lazy tensor whose cache is switched off after it was used: from then on the function is called on every access
        # again (documented), and by then it returns the data of this case (a tensor of zeros before)
        calls = []

        def later():
            calls.append(1)
            return ir.Tensor(np.zeros_like(exp), dtype=dtype) if len(calls) == 1 else ir.Tensor(exp.copy(), dtype=dtype)

        lz = ir.LazyTensor(later, dtype, ir.Shape(shape), cache=True, name="t")
        lz.numpy()
        lz.cache = False
        yield "lazy_cache_switched_off", lz, {}
    if b in (2, 4):
        pk = ir.PackedTensor(np.frombuffer(ref_bytes, dtype=np.uint8).copy(), dtype, shape=shape)
        yield "lazy_packed", ir.LazyTensor(lambda: pk, dtype, ir.Shape(shape), name="t"), {}
    # convenience constructor
    yield "ir.tensor(array)", ir.tensor(exp.copy(), dtype=dtype, name="t"), {}
    yield "ir.tensor(proto)", ir.tensor(praw), {}
    if kind in ("i", "u") and b >= 8:
        vals = [refenc.int_value(code, p) for p in pats]
        nested = np.array(vals, dtype=object).reshape(shape).tolist()
        if size > 0:
            yield "ir.tensor(list)", ir.tensor(nested, dtype=dtype, name="t"), {}
    # serde round trip of the in-memory tensor
    yield "serde_roundtrip", serde.deserialize_tensor(serde.serialize_tensor(ir.Tensor(exp.copy(), dtype=dtype, name="t"))), {}
    if b in (2, 4):
        yield "serde_roundtrip_packed", serde.deserialize_tensor(serde.serialize_tensor(ir.PackedTensor(np.frombuffer(ref_bytes, dtype=np.uint8).copy(), dtype, shape=shape, name="t"))), {}
    # torch adapter
    tt = _torch_tensor(ir, code, exp)
    if tt is not None:
        yield "torch", tt, {}
        torch = _TORCH[0]
        try:
            flat = tt.raw.reshape(-1)
            if size > 0:
                # a contiguous view into a larger storage (one row of a stacked weight, a slice of a fused buffer)
                pad = flat.clone()
                pad.view(torch.uint8).bitwise_not_()  # the neighbours in the storage hold other bytes than the view
                bigger = torch.cat([pad, flat, pad])
                view = bigger[size: 2 * size].reshape(shape)
                assert view.storage_offset() == size
                yield "torch_view_with_storage_offset", _TORCH[1].TorchTensor(view, name="t"), {"layout": True}
            if refenc.DT[code][1] == "c" and size > 0:
                # a lazily conjugated view (what torch.conj() returns): the values are the conjugates of what the memory holds
                cj = torch.conj(torch.conj(tt.raw).resolve_conj().contiguous())
                assert cj.is_conj()
                yield "torch_conjugate_view", _TORCH[1].TorchTensor(cj, name="t"), {"layout": True}
            if len(shape) >= 2 and size > 1:
                nc = tt.raw.transpose(0, 1).contiguous().transpose(0, 1)  # equal content, not contiguous
                yield "torch_non_contiguous", _TORCH[1].TorchTensor(nc, name="t"), {"layout": True}
        except Exception:
            pass


_TORCH = None


def _torch_tensor(ir, code, exp):
    global _TORCH
    if _TORCH is None:
        try:
            import torch  # noqa
            from onnx_ir import tensor_adapters

            _TORCH = (torch, tensor_adapters)
        except Exception:
            _TORCH = False
    if not _TORCH:
        return None
    torch, ta = _TORCH
    m = {1: torch.float32, 2: torch.uint8, 3: torch.int8, 5: torch.int16, 6: torch.int32, 7: torch.int64,
         9: torch.bool, 10: torch.float16, 11: torch.float64, 14: torch.complex64, 15: torch.complex128,
         16: torch.bfloat16}
    if hasattr(torch, "uint16"):
        m.update({4: torch.uint16, 12: torch.uint32, 13: torch.uint64})
    for c, nm in ((17, "float8_e4m3fn"), (18, "float8_e4m3fnuz"), (19, "float8_e5m2"), (20, "float8_e5m2fnuz")):
        if hasattr(torch, nm):
            m[c] = getattr(torch, nm)
    if code not in m:
        return None
    try:
        if code in (16, 17, 18, 19, 20):
            u = {16: torch.uint16 if hasattr(torch, "uint16") else None}.get(code, torch.uint8)
            if u is None:
                return None
            src = np.array(exp, copy=True).view(np.uint16 if code == 16 else np.uint8)
            t = torch.from_numpy(src).view(m[code])
        else:
            t = torch.from_numpy(np.array(exp, copy=True))
    except Exception:
        return None
    return ta.TorchTensor(t, name="t")


def _check_tensor(rep, t, code, shape, pats, ref_bytes, tmpdir, case, fails, flags):
    name = refenc.NAMES[code]
    size = len(pats)

    def fail(clause, msg):
        fails.append((f"{clause}/{rep.split('_p')[0] if rep.startswith('external') else rep}/{dclass(code)}", f"{rep} {name} shape={shape}: {msg}"))

    try:
        if int(t.dtype) != code:
            fail("dtype", f"dtype {t.dtype}")
        if list(t.shape.numpy()) != list(shape):
            fail("shape", f"shape {t.shape}")
        if t.size != size:
            fail("size", f"size {t.size} != {size}")
        if t.nbytes != refenc.nbytes(code, size):
            fail("nbytes", f"nbytes {t.nbytes} != {refenc.nbytes(code, size)}")
    except Exception as e:
        fail("meta-exc", f"{type(e).__name__}: {e}"[:200])
    # numpy()
    try:
        arr = t.numpy()
        if list(arr.shape) != list(shape):
            fail("numpy-shape", f"numpy shape {arr.shape}")
        else:
            got = _bits_of(arr, code)
            if got != pats:
                typed_float = flags.get("typed") and refenc.DT[code][1] in ("f", "c") and refenc.DT[code][0] >= 32
                if not (typed_float and _equal_mod_nan(code, got, pats)):
                    bad = [i for i, (g, p) in enumerate(zip(got, pats)) if g != p][:4]
                    fail("numpy-values", f"elements {bad} differ: got {[hex(got[i]) for i in bad]} expected {[hex(pats[i]) for i in bad]}")
    except Exception as e:
        fail("numpy-exc", f"{type(e).__name__}: {e}"[:200])
    # a Shape built from the tensor's shape is the caller's own: editing it must leave the tensor alone
    try:
        import onnx_ir as ir

        sh2 = ir.Shape(t.shape)
        if len(sh2) and not sh2.frozen:
            sh2[0] = 97
            if list(t.shape.numpy()) != list(shape):
                fail("shape-aliased", f"editing ir.Shape(tensor.shape) changed the tensor's shape to {list(t.shape.numpy())}")
    except Exception:
        pass
    # tobytes()
    exp_bytes = ref_bytes
    try:
        bts = t.tobytes()
        if bytes(bts) != exp_bytes:
            if not (flags.get("typed") and _bytes_equal_mod_nan(code, bytes(bts), exp_bytes, size)):
                fail("tobytes", f"tobytes {bytes(bts)[:16].hex()} (len {len(bts)}) != {exp_bytes[:16].hex()} (len {len(exp_bytes)})")
    except Exception as e:
        fail("tobytes-exc", f"{type(e).__name__}: {e}"[:200])
    # tofile()
    typed = flags.get("typed")

    def same(a):
        return a == exp_bytes or (typed and _bytes_equal_mod_nan(code, a, exp_bytes, size))

    try:
        p = os.path.join(tmpdir, "out_a.bin")
        with open(p, "wb") as f:
            t.tofile(f)
        if not same(open(p, "rb").read()):
            fail("tofile-fresh", f"file content len {os.path.getsize(p)} != expected len {len(exp_bytes)}")
        p = os.path.join(tmpdir, "out_b.bin")
        with open(p, "wb") as f:
            f.write(b"HEAD")
            t.tofile(f)
            f.write(b"TAIL")
        d = open(p, "rb").read()
        if not (d[:4] == b"HEAD" and d[-4:] == b"TAIL" and same(d[4:-4])):
            fail("tofile-header-trailer", f"got {d[:24].hex()} len {len(d)} expected HEAD+{len(exp_bytes)}B+TAIL")
        p = os.path.join(tmpdir, "out_c.bin")
        k = case["seek"]
        with open(p, "wb") as f:
            f.write(b"\x00" * (len(exp_bytes) + 20))
        with open(p, "r+b") as f:
            f.seek(k)
            t.tofile(f)
            pos = f.tell()
        d = open(p, "rb").read()
        if pos != k + len(exp_bytes):
            fail("tofile-position", f"stream position after tofile is {pos}, expected {k + len(exp_bytes)}")
        if not (same(d[k : k + len(exp_bytes)]) and d[:k] == b"\x00" * k and len(d) == len(exp_bytes) + 20 and d[k + len(exp_bytes):] == b"\x00" * (20 - k)):
            fail("tofile-seek", "bytes written after seek differ from reference or clobber neighbours")
        p = os.path.join(tmpdir, "out_d.bin")
        with open(p, "wb") as f:
            f.write(b"HEAD")
        with open(p, "ab") as f:  # a regular file whose position is always its end
            t.tofile(f)
            f.write(b"TAIL")
        d = open(p, "rb").read()
        if not (d[:4] == b"HEAD" and d[-4:] == b"TAIL" and same(d[4:-4])):
            fail("tofile-append", f"got {d[:24].hex()} len {len(d)} expected HEAD+{len(exp_bytes)}B+TAIL")
        bio = io.BytesIO()
        bio.write(b"xx")
        t.tofile(bio)
        if bio.tell() != 2 + len(exp_bytes) or not same(bio.getvalue()[2:]) or bio.getvalue()[:2] != b"xx":
            fail("tofile-bytesio", f"BytesIO holds {bio.getvalue()[:16].hex()} pos {bio.tell()}")
    except Exception as e:
        fail("tofile-exc", f"{type(e).__name__}: {e}"[:200])


def _equal_mod_nan(code, got, pats):
    """typed float fields travel through Python floats: NaN payloads may be canonicalised; compare NaN~NaN."""
    b, kind = refenc.DT[code]
    parts = 2 if kind == "c" else 1
    h = b // parts
    e, m = (8, 23) if h == 32 else (11, 52)

    def isnan(x):
        return ((x >> m) & ((1 << e) - 1)) == (1 << e) - 1 and (x & ((1 << m) - 1)) != 0

    for g, p in zip(got, pats):
        for j in range(parts):
            gg, pp = (g >> (j * h)) & ((1 << h) - 1), (p >> (j * h)) & ((1 << h) - 1)
            if gg != pp and not (isnan(gg) and isnan(pp)):
                return False
    return len(got) == len(pats)


def _bytes_equal_mod_nan(code, a, bts, size):
    b, kind = refenc.DT[code]
    if kind not in ("f", "c") or b < 32 or len(a) != len(bts):
        return False
    return _equal_mod_nan(code, refenc.decode(code, a, size), refenc.decode(code, bts, size))


def _string_case(ir, onnx, serde, case, fails, keys):
    n = 0
    for shape in SHAPES:
        size = int(np.prod(shape)) if shape else 1
        strs = []
        for i in range(size):
            s = case["pool"][i % len(case["pool"])]
            strs.append(s.to_bytes(17, "little")[: s % 7].replace(b"\x00", b"\x01") if s % 5 else b"")
        reps = {
            "StringTensor(list)": ir.StringTensor(list(strs), shape=ir.Shape(shape), name="t"),
            "StringTensor(array)": ir.StringTensor(np.array(strs, dtype=object).reshape(shape) if size else np.zeros(shape, dtype="S1"), name="t"),
            "proto_string_data": serde.TensorProtoTensor(onnx.TensorProto(data_type=8, dims=shape, string_data=strs, name="t")),
        }
        reps["serde_roundtrip"] = serde.deserialize_tensor(serde.serialize_tensor(reps["StringTensor(list)"]))
        for rep, t in reps.items():
            n += 1
            try:
                if int(t.dtype) != 8 or list(t.shape.numpy()) != shape or t.size != size:
                    fails.append((f"string-meta/{rep}/STRING", f"{rep} dtype/shape/size wrong for {shape}"))
                got = [bytes(x) for x in np.asarray(t.numpy(), dtype=object).reshape(-1).tolist()]
                if got != strs:
                    fails.append((f"string-values/{rep}/STRING", f"{rep} shape={shape}: {got[:3]} != {strs[:3]}"))
                if hasattr(t, "string_data") and [bytes(x) for x in t.string_data()] != strs:
                    fails.append((f"string-data/{rep}/STRING", f"{rep} string_data differs"))
            except Exception as e:
                fails.append((f"string-exc/{rep}/STRING", f"{rep} shape={shape}: {type(e).__name__}: {e}"[:200]))
            if size >= 1:
                keys.append(f"STRING|{rep}|{shape}|{hash(tuple(strs)) & 0xffffffff}")
        if size >= 1:
            # history: the array view is taken first (a fixed-width numpy byte string cannot hold trailing NULs, so its VALUES
            # are not judged), then the exact strings are asked for: they must still be the ones that were put in
            nul = [x + b"\x00" * (1 + i % 2) if i % 2 == 0 else x for i, x in enumerate(strs)]
            for rep, t in (("StringTensor(list)", ir.StringTensor(list(nul), shape=ir.Shape(shape), name="t")),
                           ("proto_string_data", serde.TensorProtoTensor(onnx.TensorProto(data_type=8, dims=shape, string_data=nul, name="t")))):
                n += 1
                try:
                    t.numpy()
                    np.asarray(t)
                    if hasattr(t, "string_data") and [bytes(x) for x in t.string_data()] != nul:
                        fails.append((f"string-data-after-array-view/{rep}/STRING", f"{rep} shape={shape}: string_data() after numpy() gives {[bytes(x) for x in t.string_data()][:3]}, put in {nul[:3]}"))
                    back = list(serde.serialize_tensor(t).string_data)
                    if back != nul:
                        fails.append((f"string-serialized-after-array-view/{rep}/STRING", f"{rep} shape={shape}: serialized {back[:3]}, put in {nul[:3]}"))
                except Exception as e:
                    fails.append((f"string-exc-after-array-view/{rep}/STRING", f"{rep} shape={shape}: {type(e).__name__}: {e}"[:200]))
    return n


def execute(case):
    import onnx
    from onnx import numpy_helper

    import onnx_ir as ir
    from onnx_ir import serde

    if "table" in case:
        return _table_case(case["table"])
    if "large" in case:
        return _large_case(ir, case["large"])
    code = case.get("dtype")
    pool = case.get("pool")
    if not pool or (code not in refenc.DT and code != 8):
        return dict(failures=[], nontrivial=False, classes=["malformed"], evals=0)
    fails, keys, classes = [], [], set()
    if code == 8:
        n = _string_case(ir, onnx, serde, case, fails, keys)
        return dict(failures=_dedupe(fails), nontrivial=bool(keys), nontrivial_keys=keys, classes=["STRING"], evals=n)
    b, kind = refenc.DT[code]
    tmpdir = tempfile.mkdtemp(prefix="verif_c04_")
    n = 0
    try:
        for shape in SHAPES:
            size = int(np.prod(shape)) if shape else 1
            pats = _patterns(code, pool, size)
            ref = refenc.encode(code, pats)
            # cross-check the reference codec against onnx.numpy_helper (harness sanity, not a finding)
            try:
                oa = numpy_helper.to_array(onnx.TensorProto(data_type=code, dims=shape, raw_data=ref))
                ob = _bits_of(oa, code)
                if ob != pats:
                    raise AssertionError(f"refenc/onnx disagree for {refenc.NAMES[code]} {shape}: {ob[:4]} vs {pats[:4]}")
            except AssertionError:
                raise
            except Exception:
                pass  # element type not supported by this onnx.numpy_helper: refenc alone is the reference
            cleanup = []
            try:
                gen = build_reps(ir, onnx, serde, code, shape, pats, ref, tmpdir, case, cleanup)
                while True:
                    try:
                        rep, t, flags = next(gen)
                    except StopIteration:
                        break
                    except Exception as e:
                        fails.append((f"construct-exc/?/{dclass(code)}", f"building a representation for {shape} raised {type(e).__name__}: {e}"[:240]))
                        break
                    n += 1
                    _check_tensor(rep, t, code, shape, pats, ref, tmpdir, case, fails, flags)
                    special = any(p in refenc.special_patterns(code) for p in pats)
                    nontriv = size >= 1 and (
                        (b < 8 and size % (8 // b) != 0) or code >= 16 or flags.get("offset") or flags.get("typed") or special
                    )
                    if nontriv:
                        keys.append(f"{code}|{rep}|{shape}|{hash(tuple(pats)) & 0xffffffff}")
                    classes.add("subbyte" if b < 8 else ("non-native" if code >= 16 else "native"))
                    if flags.get("eof"):
                        classes.add("external_at_eof")
            finally:
                for et in cleanup:
                    try:
                        et.release()
                    except Exception:
                        pass
    finally:
        shutil.rmtree(tmpdir, ignore_errors=True)
    return dict(failures=_dedupe(fails), nontrivial=bool(keys), nontrivial_keys=keys, classes=sorted(classes), evals=n)


def _large_case(ir, c):
    """One large external tensor (and an in-memory twin) through every byte-producing path; values via a rolling pattern."""
    try:
        nbytes, off, tail, code, seed, seek = c["n"], c["off"], c["tail"], c["dtype"], c["seed"], c["seek"]
        b, kind = refenc.DT[code]
    except (KeyError, TypeError):
        return dict(failures=[], nontrivial=False, classes=["malformed"], evals=0)
    fails = []
    per = max(1, b // 8)
    nbytes -= nbytes % per
    payload = ((np.arange(nbytes, dtype=np.uint64) * 7 + seed) % 251).astype(np.uint8).tobytes()
    if kind == "f":  # keep float payloads free of NaN so that any path may be compared bytewise
        arr = np.frombuffer(payload, dtype=np.uint8).copy()
        arr[per - 1:: per] &= 0x3F
        payload = arr.tobytes()
    n_el = nbytes * 8 // b
    shape = [n_el]
    tmpdir = tempfile.mkdtemp(prefix="verif_c04L_")
    evals = 0
    try:
        p = os.path.join(tmpdir, "big.bin")
        with open(p, "wb") as f:
            f.write(b"\xa5" * off)
            f.write(payload)
            f.write(b"\x5a" * tail)
        et = ir.ExternalTensor("big.bin", off, nbytes, ir.DataType(code), shape=ir.Shape(shape), name="t", base_dir=tmpdir)
        if b >= 8:
            unpacked = np.frombuffer(payload, dtype=np.uint8)
        else:  # 4-bit: low nibble first (vectorised twin of refenc.decode, checked against it on a prefix)
            pk = np.frombuffer(payload, dtype=np.uint8)
            unpacked = np.empty(n_el, dtype=np.uint8)
            unpacked[0::2] = pk & 0x0F
            unpacked[1::2] = pk >> 4
            assert list(unpacked[:64]) == list(refenc.decode(code, payload[:32], 64))
        mem = ir.Tensor(unpacked.view(ir.DataType(code).numpy()), dtype=ir.DataType(code), name="t")
        for rep, t in (("external", et), ("tensor", mem), ("lazy_external", ir.LazyTensor(lambda: et, ir.DataType(code), ir.Shape(shape), name="t"))):
            evals += 1

            def fail(clause, msg):
                fails.append((f"large-{clause}/{rep}/{dclass(code)}", f"{rep} {refenc.NAMES[code]} {nbytes} bytes at offset {off} (+{tail} trailing): {msg}"))

            try:
                if t.nbytes != nbytes:
                    fail("nbytes", f"nbytes {t.nbytes}")
                got = bytes(t.tobytes())
                if got != payload:
                    fail("tobytes", f"len {len(got)}, first difference at {_first_diff(got, payload)}")
                a = t.numpy()
                if b >= 8 and np.ascontiguousarray(a).view(np.uint8).tobytes() != payload:
                    fail("numpy", "element bytes differ")
                bio = io.BytesIO()
                bio.write(b"xy")
                t.tofile(bio)
                v = bio.getvalue()
                if v[:2] != b"xy" or v[2:] != payload or bio.tell() != 2 + nbytes:
                    fail("tofile-bytesio", f"BytesIO holds {len(v) - 2} bytes, position {bio.tell()}, first difference at {_first_diff(v[2:], payload)}")
                q = os.path.join(tmpdir, "out.bin")
                with open(q, "wb") as f:
                    f.write(b"\x00" * (nbytes + seek + 11))
                with open(q, "r+b") as f:
                    f.seek(seek)
                    t.tofile(f)
                    pos = f.tell()
                    f.write(b"END")
                d = open(q, "rb").read()
                if pos != seek + nbytes:
                    fail("tofile-position", f"position after tofile {pos}, expected {seek + nbytes}")
                if d[:seek] != b"\x00" * seek or d[seek: seek + nbytes] != payload or d[seek + nbytes: seek + nbytes + 3] != b"END" or len(d) != nbytes + seek + 11:
                    fail("tofile-file", f"file holds {len(d)} bytes; payload differs at {_first_diff(d[seek: seek + nbytes], payload)}")

                class NoTell(io.RawIOBase):  # a pipe-like destination: writable, no tell/seek/fileno
                    def __init__(self):
                        self.chunks = []

                    def writable(self):
                        return True

                    def write(self, data):
                        self.chunks.append(bytes(data))
                        return len(data)

                nt = NoTell()
                t.tofile(nt)
                if b"".join(nt.chunks) != payload:
                    fail("tofile-stream", f"stream received {sum(map(len, nt.chunks))} bytes, first difference at {_first_diff(b''.join(nt.chunks), payload)}")
            except Exception as e:
                fail("exc", f"{type(e).__name__}: {e}"[:200])
        try:
            et.release()
        except Exception:
            pass
    finally:
        shutil.rmtree(tmpdir, ignore_errors=True)
    return dict(failures=_dedupe(fails), nontrivial=True, nontrivial_keys=[f"L|{nbytes}|{off}|{tail}|{code}|{seek}"], classes=["large_tensor", f"large_{'multiple' if nbytes % (1 << 20) == 0 else 'ragged'}"], evals=evals)


def _first_diff(a, b):
    n = min(len(a), len(b))
    x = np.frombuffer(a[:n], dtype=np.uint8) != np.frombuffer(b[:n], dtype=np.uint8)
    idx = int(np.argmax(x)) if x.any() else n
    return idx if (idx < n or len(a) != len(b)) else None


def _dedupe(fails):
    seen, out = set(), []
    for b, m in fails:
        if b not in seen:
            seen.add(b)
            out.append((b, m))
    return out


def selftest():
    # reference codec sanity on a fixed table
    assert refenc.encode(22, [1, 0xF, 8]) == bytes([0xF1, 0x08])
    assert refenc.encode(26, [0, 1, 2, 3, 1]) == bytes([0b11100100, 0x01])
    assert refenc.decode(26, bytes([0b11100100, 0x01]), 5) == [0, 1, 2, 3, 1]
    assert refenc.encode(5, [0xFFFE]) == b"\xfe\xff" and refenc.int_value(5, 0xFFFE) == -2
    assert refenc.nbytes(25, 5) == 2 and refenc.nbytes(21, 3) == 2 and refenc.nbytes(1, 3) == 12


def extra(tier, seed, shard, col):
    """Element-type table consistency (finite: enumerated completely, once)."""
    if shard != 0:
        return
    import onnx_ir as ir

    n = 0
    for d in ir.DataType:
        if d == ir.DataType.UNDEFINED:
            continue
        n += 1
        case = {"table": d.name}
        col.record(case, _table_case(d.name))
    col.extra["table_entries_checked"] = n


def _table_case(name):
    import onnx

    import onnx_ir as ir

    d = ir.DataType[name]
    if True:
        probs = []
        try:
            if d != ir.DataType.STRING:
                if d.itemsize * 8 != d.bitwidth:
                    probs.append("itemsize*8 != bitwidth")
                if int(d) in refenc.DT and d.bitwidth != refenc.DT[int(d)][0]:
                    probs.append(f"bitwidth {d.bitwidth} != ONNX-defined {refenc.DT[int(d)][0]}")
                npdt = np.dtype(d.numpy())
                if d.bitwidth >= 8 and npdt.itemsize * 8 != d.bitwidth:
                    probs.append(f"numpy itemsize {npdt.itemsize} vs bitwidth {d.bitwidth}")
                if ir.DataType.from_numpy(npdt) != d:
                    probs.append(f"from_numpy(numpy()) = {ir.DataType.from_numpy(npdt)}")
            if ir.DataType.from_short_name(d.short_name()) != d:
                probs.append("from_short_name(short_name()) differs")
            try:
                onp = onnx.helper.tensor_dtype_to_np_dtype(int(d))
            except Exception:
                onp = None
            if onp is not None and d != ir.DataType.STRING and np.dtype(onp) != np.dtype(d.numpy()):
                probs.append(f"onnx maps to {onp}, library to {d.numpy()}")
        except Exception as e:
            probs.append(f"{type(e).__name__}: {e}")
        return dict(failures=[(f"table/{d.name}", "; ".join(probs))] if probs else [], nontrivial=False, classes=["table"], evals=1)

"""C11 - graph iteration stays well defined while the graph is edited."""

from __future__ import annotations

ID = "C11"
LEVEL = "exploration"
TECHNIQUE = (
    "stateful (model-based) property-based testing: generated interleavings of iterator steps (forward, backward, "
    "recursive cursors) with append/extend/insert_before/insert_after/remove/move/sort/move-to-other-graph, "
    "checked against a plain-list model of the live sequence and clause oracles over the yield log"
)
LEVEL_TEXT = (
    "Generated-history exploration with a reference model: the live node sequence is mirrored in a Python list "
    "updated by the same edits; every cursor's yield log is judged by clauses (b)-(e) of DESIGN.md C11, the "
    "sequence accessors by clause (g) after every step, termination by a step bound. Situations the statement "
    "leaves open are not asserted."
)
TRUSTED = "the list model of insert/remove/move semantics written from the documented behaviour of the node sequence"
RULE = (
    "case = initial length 0-8 + op script (new cursor fwd/bwd/recursive, step, append, extend, insert_before/after "
    "of new and existing nodes incl. the cursor's current node and neighbours, remove, sort, move to another graph "
    "and back; targets are selected relative to a cursor; insertions are spelled Graph.insert_* or Node.append/prepend, node "
    "arguments as list/tuple/generator/iterator; a fourth cursor kind is reversed() of a backward recursive iterator; the whole "
    "case optionally runs inside an active Journal). All cursors are drained at the end. Non-trivial = at "
    "least one edit touched a started cursor's current node or its immediate neighbour before that cursor was "
    "exhausted. distinct = distinct script JSON."
)
ASSUMPTIONS = [
    "a cursor 'starts' at its first step (Python generators do not run before the first next())",
    "clauses about nodes inserted relative to a cursor apply only while the cursor's current node is live",
    "after sort() every node counts as touched (sort re-links all nodes)",
]
BUDGET = {"quick": (16, 1500), "thorough": (16, 25000)}


def strategy(tier, phase):
    from hypothesis import strategies as st

    sel = st.tuples(st.integers(0, 2), st.integers(-2, 3)).map(list)
    nodesel = st.one_of(st.just(-1), sel, sel)
    op = st.one_of(
        st.tuples(st.just("cursor"), st.integers(0, 3)).map(list),
        st.tuples(st.just("step"), st.integers(0, 2)).map(list),
        st.tuples(st.just("step"), st.integers(0, 2)).map(list),
        st.tuples(st.just("step"), st.integers(0, 2)).map(list),
        st.tuples(st.just("append"), st.integers(0, 3)).map(list),
        st.tuples(st.just("extend"), st.integers(0, 3), st.integers(1, 2)).map(list),
        st.tuples(st.just("extend_dup"), st.integers(0, 3)).map(list),
        st.tuples(st.just("restart"), st.integers(0, 2)).map(list),
        st.tuples(st.just("ins"), st.integers(0, 3), st.booleans(), sel, st.lists(nodesel, min_size=1, max_size=3)).map(list),
        st.tuples(st.just("ins"), st.integers(0, 3), st.booleans(), sel, st.lists(nodesel, min_size=1, max_size=3)).map(list),
        st.tuples(st.just("remove"), st.integers(0, 3), sel).map(list),
        st.tuples(st.just("remove"), st.integers(0, 3), sel).map(list),
        st.tuples(st.just("sort"), st.integers(0, 3)).map(list),
        st.tuples(st.just("away"), sel).map(list),
        st.tuples(st.just("back"), st.integers(0, 3), st.integers(0, 2), sel).map(list),
    )
    n = 30 if tier == "quick" else 80
    return st.fixed_dictionaries(
        {"init": st.integers(0, 8), "sub_at": st.integers(0, 8), "journal": st.sampled_from([False, False, False, True]),
         "ops": st.sampled_from([6, 12, 20, n]).flatmap(lambda k: st.lists(op, min_size=k // 2, max_size=k))}
    )


class Malformed(Exception):
    pass


class Cursor:
    def __init__(self, kind, it, idx):
        self.kind = kind  # 0 fwd, 1 bwd, 2 recursive
        self.it = it
        self.idx = idx
        self.started = False
        self.start_clock = None
        self.start_snapshot = None  # flattened expected order at start
        self.cur = None
        self.cur_live = False  # current node has not been touched since it was yielded
        self.exhausted = False
        self.log = []  # (node, clock)
        self.must_yield = {}  # id(node) -> (node, stamp)
        self.must_skip = {}  # id(node) -> (node, stamp)
        self.must_yield_tail = {}  # id(node) -> (node, stamp, "chain"|"live-follower"): far-end insertions while the current node is gone
        self.followers_at_removal = []
        self.expect_next = None  # (node s, stamp of s at that time)
        self.h_touched = False


class World:
    def spell(self, items):
        """The node arguments under another spelling of "iterable": list, tuple, generator, one-shot iterator."""
        self.spell_n += 1
        k = (self.spell_n + len(items)) % 4
        return list(items) if k == 0 else tuple(items) if k == 1 else (x for x in list(items)) if k == 2 else iter(list(items))

    def __init__(self, case):
        import onnx_ir as ir

        self.ir = ir
        self.clock = 1
        self.touch = {}  # id(node) -> clock of last touch
        self.n_created = 0
        self.S = ir.Graph([], [], nodes=[], name="S")
        self.LS = []
        for _ in range(2):
            n = self.new_node()
            self.S.append(n)
            self.LS.append(n)
        self.G0 = ir.Graph([], [], nodes=[], name="G0")
        self.G1 = ir.Graph([], [], nodes=[], name="G1")
        self.L0 = []
        self.L1 = []
        k = case["init"] % 9
        for i in range(k):
            if i == case["sub_at"] % max(1, k):
                n = self.new_node(sub=self.S)
                self.H = n
            else:
                n = self.new_node()
            self.G0.append(n)
            self.L0.append(n)
        if k == 0:
            self.H = None
        self.cursors = []
        self.fails = []
        self.double_reversed = False
        self.spell_n = 0
        self.node_spelling = False
        self.edits = 0
        self.interesting = False

    def new_node(self, sub=None):
        ir = self.ir
        attrs = [ir.AttrGraph("body", sub)] if sub is not None else []
        n = ir.Node("", "Op", [], attrs, num_outputs=1, name=f"m{self.n_created}")
        self.n_created += 1
        return n

    def fail(self, clause, msg):
        if len(self.fails) < 4:
            self.fails.append((clause, msg))

    def lists(self, g):
        return (self.G0, self.L0) if g % 2 == 0 else (self.S, self.LS)

    def tick(self, node):
        self.clock += 1
        self.touch[id(node)] = self.clock

    def stamp(self, node):
        return self.touch.get(id(node), 0)

    # -- selection ------------------------------------------------------------------
    def select(self, L, sel):
        if not L:
            return None
        ci, off = sel
        if self.cursors:
            c = self.cursors[ci % len(self.cursors)]
            if c.cur is not None and any(c.cur is x for x in L):
                pos = [i for i, x in enumerate(L) if x is c.cur][0]
                return L[(pos + off) % len(L)]
        return L[(ci * 3 + off) % len(L)]

    # -- model edits ------------------------------------------------------------------
    def flatten(self, L0=None):
        out = []
        for n in (self.L0 if L0 is None else L0):
            out.append(n)
            if n is self.H:
                out.extend(self.LS)
        return out

    def notify_touch(self, node, L_before, graph_is_main):
        """node is about to be removed/moved: update cursors sitting on it (clause e)."""
        for c in self.cursors:
            if not c.started or c.exhausted:
                continue
            seq = self.seq_for(c, L_before, graph_is_main)
            if seq is None:
                continue
            if c.cur is node and c.cur_live:
                c.cur_live = False
                # follower at this moment in cursor direction
                pos = [i for i, x in enumerate(seq) if x is node]
                if pos:
                    i = pos[0]
                    s = seq[i + 1] if i + 1 < len(seq) else None
                    c.expect_next = (s, self.stamp(s)) if s is not None else None
                    c.followers_at_removal = [(f, self.stamp(f)) for f in seq[i + 1:]]
                    if c.kind == 2 and c.expect_next is not None:
                        # a recursive cursor is a stack of per-graph positions: the flat follower is only
                        # the resume point when it lives on the same level (or the removed node is the
                        # subgraph holder, whose subgraph is entered next), and the holder is in place
                        same_level = (any(s is x for x in self.LS) == any(node is x for x in self.LS)) or node is self.H
                        if c.h_touched or not same_level:
                            c.expect_next = None
                self.interesting = True
            elif c.cur_live and c.cur is not None:
                pos = [i for i, x in enumerate(seq) if x is c.cur]
                if pos:
                    i = pos[0]
                    nb = [seq[j] for j in (i - 1, i + 1) if 0 <= j < len(seq)]
                    if any(x is node for x in nb):
                        self.interesting = True
            if node is self.H:
                c.h_touched = True
                if c.kind == 2:
                    c.expect_next = None

    def seq_for(self, c, L, graph_is_main):
        """The sequence the cursor walks, in its direction, for an edit in main graph / subgraph."""
        if c.kind == 2:
            if graph_is_main:
                flat = self.flatten(L)
            else:
                # edit in S: substitute L for LS
                flat = []
                for n in self.L0:
                    flat.append(n)
                    if n is self.H:
                        flat.extend(L)
            return flat
        if not graph_is_main:
            return None
        return list(reversed(L)) if c.kind == 1 else list(L)

    def notify_insert(self, nodes, graph_is_main):
        """nodes were just inserted (model lists already updated)."""
        L = self.L0 if graph_is_main else self.LS
        for c in self.cursors:
            if c.started and not c.exhausted and not c.cur_live and c.cur is not None and c.kind in (0, 1) and graph_is_main:
                # The current node was removed/moved: the cursor stands at its ORIGINAL place, i.e. somewhere before the
                # far end of the sequence in its direction.  A node that arrives at that far end is therefore "inserted
                # after the current position" whatever happened in between (the only claim made for such a cursor).
                seq = self.seq_for(c, L, graph_is_main)
                if seq:
                    for n in nodes:
                        if seq[-1] is n and n is not c.cur:
                            # "chain": every node that followed the removed current node has been removed or moved since
                            # (its old link is a tombstone too) - the tombstone chain then leads straight to the end
                            gone = all(self.stamp(f) != st0 or f is n for f, st0 in c.followers_at_removal)
                            if gone:
                                # nothing untouched is left between the cursor's place and the far end: the node arrived AT
                                # the cursor's place, where "before" and "after" are not defined - no claim
                                self.ambiguous_tail = getattr(self, "ambiguous_tail", 0) + 1
                            else:
                                c.must_yield_tail[id(n)] = (n, self.stamp(n), "live-follower")
                continue
            if not c.started or c.exhausted or not c.cur_live or c.cur is None:
                continue
            seq = self.seq_for(c, L, graph_is_main)
            if seq is None:
                continue
            pc = [i for i, x in enumerate(seq) if x is c.cur]
            if not pc:
                continue
            for n in nodes:
                pn = [i for i, x in enumerate(seq) if x is n]
                if not pn:
                    continue
                if c.kind == 2 and c.h_touched:
                    continue
                if pn[0] > pc[0]:
                    c.must_yield[id(n)] = (n, self.stamp(n))
                    c.must_skip.pop(id(n), None)
                else:
                    c.must_skip[id(n)] = (n, self.stamp(n))
                    c.must_yield.pop(id(n), None)
                if abs(pn[0] - pc[0]) == 1:
                    self.interesting = True

    def model_insert(self, L, point, nodes, graph_is_main):
        """Insert nodes after `point` (a node of L, or None for the head). Returns list of actually (re)inserted nodes."""
        done = []
        for v in nodes:
            if v is point:
                continue
            if any(v is x for x in L):
                self.notify_touch(v, list(L), graph_is_main)
                L[:] = [x for x in L if x is not v]
            self.tick(v)
            i = 0 if point is None else [j for j, x in enumerate(L) if x is point][0] + 1
            L.insert(i, v)
            point = v
            done.append(v)
        return done

    # -- cursor stepping ----------------------------------------------------------------
    def step(self, c):
        if c.exhausted:
            return
        if not c.started:
            c.started = True
            c.start_clock = self.clock
            if c.kind == 2:
                c.start_snapshot = self.flatten()
            elif c.kind == 1:
                c.start_snapshot = list(reversed(self.L0))
            else:
                c.start_snapshot = list(self.L0)
        try:
            n = next(c.it)
        except StopIteration:
            c.exhausted = True
            if c.expect_next is not None:
                s, st = c.expect_next
                if self.stamp(s) == st and self.present(c, s):
                    self.fail(f"e-resume/{KIND[c.kind]}", f"cursor#{c.idx} ended although {s.name}, which followed its removed current node, is still in place")
            return
        except Exception as e:
            c.exhausted = True
            self.fail(f"a-step-raised/{KIND[c.kind]}/{type(e).__name__}", f"cursor#{c.idx} step raised {type(e).__name__}: {e}"[:200])
            return
        self.clock += 1
        c.log.append((n, self.clock))
        # (b) belongs to the graph at the moment it is yielded
        if not self.present(c, n):
            self.fail(f"b-not-member/{KIND[c.kind]}", f"cursor#{c.idx} yielded {n.name} which is not in the graph now (graph={getattr(n.graph, 'name', None)})")
        # (e) resume with the follower
        if c.expect_next is not None:
            s, st = c.expect_next
            if self.stamp(s) == st and self.present(c, s) and n is not s:
                self.fail(f"e-resume/{KIND[c.kind]}", f"cursor#{c.idx}: current node was removed/moved; expected to resume with {s.name}, got {n.name}")
            c.expect_next = None
        c.cur = n
        c.cur_live = True

    def present(self, c, n):
        if any(n is x for x in self.L0):
            return n.graph is self.G0
        if c.kind == 2 and any(n is x for x in self.LS):
            return n.graph is self.S
        return False

    # -- (g) accessors -------------------------------------------------------------------
    def check_accessors(self, tag, probe=0):
        for g, L in ((self.G0, self.L0), (self.S, self.LS), (self.G1, self.L1)):
            try:
                if L:
                    # the first lookup after the edit goes to ONE generated position (full scans in a fixed order always
                    # leave and find the container in the same access state)
                    p = probe % len(L)
                    if g[p] is not L[p]:
                        self.fail("g-index", f"after {tag}: {g.name}[{p}] (first lookup after the edit) disagrees with model")
                        continue
                real = list(g)
                ok = len(real) == len(L) and all(a is b for a, b in zip(real, L))
                if not ok:
                    self.fail("g-list", f"after {tag}: list({g.name}) = {[n.name for n in real]} but model {[n.name for n in L]}")
                    continue
                if len(g) != len(L):
                    self.fail("g-len", f"after {tag}: len({g.name})={len(g)} model {len(L)}")
                rev = list(reversed(g))
                if len(rev) != len(L) or any(a is not b for a, b in zip(rev, reversed(L))):
                    self.fail("g-reversed", f"after {tag}: reversed({g.name}) disagrees with model")
                # scan order and final position vary with the probe (ascending / descending / rotated)
                order = list(range(len(L)))
                if L:
                    r = (probe // 7) % len(L)
                    order = order[r:] + order[:r]
                    if (probe // 3) % 2:
                        order.reverse()
                for i in order:
                    if g[i] is not L[i] or g[i - len(L)] is not L[i]:
                        self.fail("g-index", f"after {tag}: {g.name}[{i}] disagrees with model")
                        break
                if L and (probe // 5) % 2:
                    q = (probe // 11) % len(L)
                    if g[q] is not L[q]:
                        self.fail("g-index", f"after {tag}: {g.name}[{q}] disagrees with model")
                for n in L:
                    if n not in g:
                        self.fail("g-contains", f"after {tag}: {n.name} in {g.name} is False")
                        break
                for other in (self.L0, self.LS, self.L1):
                    if other is not L:
                        for n in other:
                            if n in g:
                                self.fail("g-contains", f"after {tag}: foreign {n.name} in {g.name} is True")
                                break
                try:
                    g[len(L)]
                    self.fail("g-index", f"{g.name}[len] did not raise")
                except IndexError:
                    pass
            except Exception as e:
                self.fail(f"g-accessor-raised/{type(e).__name__}", f"after {tag}: {type(e).__name__}: {e}"[:200])


KIND = ["forward", "backward", "recursive"]


class _Stuck(BaseException):
    pass


def _alarm(signum, frame):
    raise _Stuck()


def execute(case):
    """Runs the case under a 30 s alarm: every call made here is O(nodes) on a graph of at most a few dozen nodes, so a
    call that is still running after 30 s is an iteration or accessor that does not terminate (a violation of "well
    defined"), not slowness."""
    import signal

    old = signal.signal(signal.SIGALRM, _alarm)
    signal.alarm(30)
    try:
        if case.get("journal"):
            # the same history while a Journal is recording (its wrappers sit between the caller and every editing method)
            from onnx_ir.journaling import Journal

            with Journal():
                out = _execute(case)
            out.setdefault("classes", []).append("inside_active_journal")
            return out
        return _execute(case)
    except _Stuck:
        return dict(failures=[("no-termination", "a graph iteration / accessor call did not return within 30 s on a graph of a few dozen nodes")],
                    nontrivial=True, classes=["stuck"])
    finally:
        signal.alarm(0)
        signal.signal(signal.SIGALRM, old)


def _execute(case):
    try:
        w = World(case)
        ops = case["ops"]
        ir = w.ir
        from onnx_ir import traversal

        for k, op in enumerate(ops):
            name = op[0]
            if name == "cursor":
                if len(w.cursors) < 3:
                    kind = op[1] % 4
                    if kind == 3:
                        # reversed() of a backward recursive iterator walks forwards again: it owes what a forward one owes
                        it = iter(reversed(traversal.RecursiveGraphIterator(w.G0, reverse=True)))
                        kind = 2
                        w.double_reversed = True
                    else:
                        it = iter(w.G0) if kind == 0 else (reversed(w.G0) if kind == 1 else iter(traversal.RecursiveGraphIterator(w.G0)))
                    w.cursors.append(Cursor(kind, it, len(w.cursors)))
                continue
            if name == "step":
                if w.cursors:
                    w.step(w.cursors[op[1] % len(w.cursors)])
                continue
            if name == "restart":
                # a RecursiveGraphIterator is its own iterator: iter() on the same object abandons the traversal in progress
                # (wherever it stands, also inside a subgraph) and starts a new one, which owes everything a fresh cursor owes
                rec = [c for c in w.cursors if c.kind == 2]
                if rec:
                    c = rec[op[1] % len(rec)]
                    w.cursors[c.idx] = Cursor(2, iter(c.it), c.idx)
                    w.restarted = True
                continue
            w.edits += 1
            if name == "append":
                g, L = w.lists(op[1])
                n = w.new_node()
                g.append(n)
                w.tick(n)
                L.append(n)
                w.notify_insert([n], g is w.G0)
            elif name == "extend":
                g, L = w.lists(op[1])
                ns = [w.new_node() for _ in range(op[2])]
                g.extend(w.spell(ns))
                for n in ns:
                    w.tick(n)
                    L.append(n)
                w.notify_insert(ns, g is w.G0)
            elif name == "extend_dup":
                # one call that lists a node twice (the second occurrence moves it): also on an empty sequence
                g, L = w.lists(op[1])
                n1, n2 = w.new_node(), w.new_node()
                ns = [n1, n2, n1]
                g.extend(ns)
                done = w.model_insert(L, L[-1] if L else None, ns, g is w.G0)
                w.notify_insert(done, g is w.G0)
            elif name == "ins":
                g, L = w.lists(op[1])
                before, asel, nsels = op[2], op[3], op[4]
                anchor = w.select(L, asel)
                if anchor is None:
                    continue
                nodes = []
                for s in nsels:
                    if s == -1:
                        nodes.append(w.new_node())
                    else:
                        x = w.select(L, s)
                        if x is not None:
                            nodes.append(x)
                if not nodes:
                    continue
                if before:
                    pos = [i for i, x in enumerate(L) if x is anchor][0]
                    point = L[pos - 1] if pos > 0 else None
                    if w.spell_n % 3 == 1:  # Node.prepend is documented as the same call
                        anchor.prepend(w.spell(nodes))
                        w.node_spelling = True
                    else:
                        g.insert_before(anchor, w.spell(nodes))
                else:
                    point = anchor
                    if w.spell_n % 3 == 1:  # Node.append likewise
                        anchor.append(w.spell(nodes))
                        w.node_spelling = True
                    else:
                        g.insert_after(anchor, w.spell(nodes))
                done = w.model_insert(L, point, nodes, g is w.G0)
                w.notify_insert(done, g is w.G0)
            elif name == "remove":
                g, L = w.lists(op[1])
                n = w.select(L, op[2])
                if n is None:
                    continue
                w.notify_touch(n, list(L), g is w.G0)
                g.remove(n if w.spell_n % 2 else w.spell([n]))
                w.tick(n)
                L[:] = [x for x in L if x is not n]
            elif name == "sort":
                g, L = w.lists(op[1])
                for n in list(L):
                    w.notify_touch(n, list(L), g is w.G0)
                g.sort()
                for n in L:
                    w.tick(n)
                if g is w.G0:  # sort(G0) also sorts the subgraph
                    for n in w.LS:
                        w.notify_touch(n, list(w.LS), False)
                        w.tick(n)
            elif name == "away":
                n = w.select(w.L0, op[1])
                if n is None or n is w.H:
                    continue
                w.notify_touch(n, list(w.L0), True)
                w.G0.remove(n)
                w.G1.append(n)
                w.tick(n)
                w.L0[:] = [x for x in w.L0 if x is not n]
                w.L1.append(n)
            elif name == "back":
                if not w.L1:
                    continue
                n = w.L1[op[1] % len(w.L1)]
                w.G1.remove(n)
                w.L1[:] = [x for x in w.L1 if x is not n]
                mode = op[2] % 3
                anchor = w.select(w.L0, op[3])
                if mode == 0 or anchor is None:
                    w.G0.append(n)
                    w.tick(n)
                    w.L0.append(n)
                    w.notify_insert([n], True)
                elif mode == 1:
                    w.G0.insert_after(anchor, [n])
                    done = w.model_insert(w.L0, anchor, [n], True)
                    w.notify_insert(done, True)
                else:
                    pos = [i for i, x in enumerate(w.L0) if x is anchor][0]
                    point = w.L0[pos - 1] if pos > 0 else None
                    w.G0.insert_before(anchor, [n])
                    done = w.model_insert(w.L0, point, [n], True)
                    w.notify_insert(done, True)
            else:
                raise Malformed(name)
            w.check_accessors(f"op#{k} {op}", probe=sum(x for x in op if isinstance(x, int) and not isinstance(x, bool)) * 13 + k)
            if w.fails:
                break
        # drain
        if not w.fails:
            bound = len(w.L0) + len(w.LS) * 2 + w.edits + 2
            for c in w.cursors:
                steps = 0
                while not c.exhausted and steps <= bound + 5:
                    w.step(c)
                    steps += 1
                if not c.exhausted:
                    w.fail(f"a-no-termination/{KIND[c.kind]}", f"cursor#{c.idx} did not finish within {bound} steps after edits stopped")
                    continue
                _final_clauses(w, c)
    except (Malformed, IndexError, KeyError, TypeError) as e:
        if isinstance(e, Malformed) or "ops" not in case:
            return dict(failures=[], nontrivial=False, classes=["malformed"])
        raise
    classes = []
    for c in w.cursors:
        classes.append("cursor_" + KIND[c.kind])
    if w.interesting:
        classes.append("edit_at_cursor")
    if len(w.cursors) >= 2:
        classes.append(">=2 cursors")
    fails = [(b, m + f" | script init={case['init']} ops={case['ops']}"[:300]) for b, m in w.fails[:2]]
    if getattr(w, "restarted", False):
        classes.append("recursive_iterator_restarted")
    if getattr(w, "ambiguous_tail", 0):
        classes.append("arrival_at_the_place_of_a_removed_current_node(no claim)")
    if any(c.must_yield_tail for c in w.cursors):
        classes.append("arrival_behind_a_removed_current_node")
    if w.double_reversed:
        classes.append("reversed_of_a_backward_recursive_iterator")
    if w.node_spelling:
        classes.append("insertion_spelled_Node.append/prepend")
    return dict(failures=fails, nontrivial=w.interesting and bool(w.cursors), classes=sorted(set(classes)))


def _final_clauses(w, c):
    if not c.started:
        return
    # (c) untouched nodes present at start: exactly once, in order
    untouched = [n for n in c.start_snapshot if w.stamp(n) <= c.start_clock]
    if c.kind == 2 and c.h_touched:
        untouched = [n for n in untouched if not any(n is x for x in w.LS)]
    ids = {id(n) for n in untouched}
    got = [n for n, _ in c.log if id(n) in ids]
    if len(got) != len(untouched) or any(a is not b for a, b in zip(got, untouched)):
        w.fail(f"c-untouched-once-in-order/{KIND[c.kind]}", f"cursor#{c.idx}: untouched nodes present at start {[n.name for n in untouched]} but yielded {[n.name for n in got]}")
    # (d) inserted after a live current node: exactly once after insertion; inserted before: not yielded after it
    in_s = lambda n: any(n is x for x in w.LS) or n.graph is w.S
    for n, st in c.must_yield.values():
        if w.stamp(n) != st or (c.kind == 2 and c.h_touched and in_s(n)):
            continue
        cnt = sum(1 for m, clk in c.log if m is n and clk > st)
        if cnt != 1:
            w.fail(f"d-inserted-after/{KIND[c.kind]}", f"cursor#{c.idx}: {n.name} was inserted after the live current node but was yielded {cnt} times afterwards")
    for n, st, how in c.must_yield_tail.values():
        if w.stamp(n) != st:
            continue
        cnt = sum(1 for m, clk in c.log if m is n and clk > st)
        if cnt != 1:
            w.fail(f"d-appended-after-removed-current/{how}/{KIND[c.kind]}", f"cursor#{c.idx}: its current node had been removed; {n.name} then arrived at the far end of the sequence (after the cursor's place) but was yielded {cnt} times afterwards")
    for n, st in c.must_skip.values():
        if w.stamp(n) != st or (c.kind == 2 and c.h_touched and in_s(n)):
            continue
        cnt = sum(1 for m, clk in c.log if m is n and clk > st)
        if cnt != 0:
            w.fail(f"d-inserted-before/{KIND[c.kind]}", f"cursor#{c.idx}: {n.name} was inserted before the live current node but was yielded {cnt} times afterwards")


def selftest():
    """Pure model test (no code under test involved): the list model of insert/move."""

    class N:
        def __init__(self, name):
            self.name = name

    w = World.__new__(World)
    w.clock = 1
    w.touch = {}
    w.cursors = []
    w.H = None
    w.LS = []
    w.interesting = False
    a, b, c, d = N("a"), N("b"), N("c"), N("d")
    L = [a, b, c]
    w.L0 = L
    done = w.model_insert(L, a, [c, d], True)  # move c after a, then new d after c
    assert [x.name for x in L] == ["a", "c", "d", "b"], [x.name for x in L]
    assert [x.name for x in done] == ["c", "d"]
    done = w.model_insert(L, a, [a], True)  # inserting a node after itself is a no-op
    assert [x.name for x in L] == ["a", "c", "d", "b"] and done == []
    done = w.model_insert(L, None, [b], True)  # move to the head
    assert [x.name for x in L] == ["b", "a", "c", "d"]

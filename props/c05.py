"""C05 - every built-in pass, alone or composed, preserves what the model computes."""

from __future__ import annotations

import os

ID = "C05"
LEVEL = "exploration"
TECHNIQUE = (
    "differential property-based testing: generated checker-valid runnable models (vlib/rmodel.py) x generated pass "
    "sequences (all 19 built-in passes with generated parameters, Sequential / PassManager / functionalize wrappers); "
    "the model is executed with onnxruntime (graph optimisations disabled, inputs fed by position) before and after, "
    "outputs compared bit-exactly (NaN-aware) on several input sets incl. NaN/inf; interface shape and ONNX checker "
    "acceptance compared as well"
)
LEVEL_TEXT = (
    "Generated exploration of programs x pass sequences x inputs with a before/after differential under one engine. "
    "If onnxruntime refuses the transformed model but ran the original, the comparison is repeated under the ONNX "
    "reference evaluator: agreement there is reported as an engine-specific rejection, not as a violation."
)
TRUSTED = "onnxruntime CPU kernels (same kernels on both sides), onnx.checker, onnx ReferenceEvaluator (second opinion only)"
RULE = (
    "case = model tape + list of (pass index, parameters) of length 1-6 + wrapper kind + optional prelude tape (another "
    "model, possibly of another opset version, processed by the same passes first in the same process). Non-trivial = at least one pass "
    "reported modified=True and the model has >=1 of: control-flow body with a captured value, function call, duplicate "
    "sub-expression or initializer, optional input/output, output aliasing an input. distinct = case JSON."
)
ASSUMPTIONS = [
    "'for all inputs' is sampled by three input sets per model (small values; one set with NaN/+inf/-inf)",
    "exceptions documented by a pass (PreconditionError, InvariantError, PassError wrapping ValueError of the inliner / sort cycle) count as 'input rejected'",
    "a function importing another default opset than its model is rejected by the checker itself and is not generated",
]
BUDGET = {"quick": (16, 1000), "thorough": (16, 8000)}
PHASES = ["main", "history"]
PHASE_WEIGHTS = {"main": 0.85, "history": 0.4}

PASSES = [
    "RemoveUnusedNodesPass", "RemoveUnusedFunctionsPass", "RemoveUnusedOpsetsPass", "IdentityEliminationPass",
    "CommonSubexpressionEliminationPass", "DeduplicateInitializersPass", "DeduplicateHashedInitializersPass",
    "LiftConstantsToInitializersPass", "LiftSubgraphInitializersToMainGraphPass", "AddInitializersToInputsPass",
    "RemoveInitializersFromInputsPass", "InlinePass", "NameFixPass", "OutputFixPass", "TopologicalSortPass",
    "AddDefaultAttributesPass", "ClearMetadataAndDocStringPass", "ShapeInferencePass", "CheckerPass",
]


def strategy(tier, phase):
    from hypothesis import strategies as st

    from vlib import rmodel

    step = st.tuples(st.integers(0, len(PASSES) - 1), st.integers(0, 7)).map(list)
    if phase == "history":
        # one pass object, two models: the model under test and - before it - another generated model or a near twin of the
        # model under test (its tape with a few early positions changed); either way other functions / other function
        # bodies under the same names.  What a pass remembers from
        # the first model must not reach the second.
        edit = st.lists(st.tuples(st.integers(0, 12), st.integers(0, 2**16)).map(list), min_size=1, max_size=3)
        return st.fixed_dictionaries({"tape": rmodel.tape_strategy(), "steps": st.lists(step, min_size=1, max_size=1), "wrap": st.sampled_from([0, 0, 2]),
                                      "gen": st.just(4), "prelude": st.one_of(st.just([]), rmodel.tape_strategy(100), rmodel.tape_strategy(100)), "prelude_edit": edit})
    return st.fixed_dictionaries({"tape": rmodel.tape_strategy(), "steps": st.lists(step, min_size=1, max_size=6), "wrap": st.integers(0, 3),
                                  "gen": st.sampled_from([2, 3, 4, 4, 5, 5, 6, 6]), "prelude": st.one_of(st.just([]), st.just([]), rmodel.tape_strategy(100)),
                                  # ... or the prelude is the model under test with a few tape positions changed (the "same" model before an edit)
                                  "prelude_edit": st.one_of(st.just([]), st.just([]), st.lists(st.tuples(st.one_of(st.integers(0, 12), st.integers(0, 12), st.integers(0, 80)), st.integers(0, 2**16)).map(list), min_size=1, max_size=3))})


def make_pass(idx, param):
    from onnx_ir.passes import common as pc

    name = PASSES[idx % len(PASSES)]
    cls = getattr(pc, name)
    if name == "RemoveUnusedOpsetsPass":
        return cls(process_functions=bool(param % 2))
    if name == "CommonSubexpressionEliminationPass":
        return cls(size_limit=[10, 0, 1000][param % 3])
    if name == "DeduplicateInitializersPass":
        return cls(size_limit=[1024, 4, 10**6][param % 3])
    if name == "LiftConstantsToInitializersPass":
        return cls(lift_all_constants=bool(param % 2), size_limit=[16, 0, 2][(param // 2) % 3])
    if name == "InlinePass":
        # the rarely used `criteria` option: keep one function (inline the others into it), or inline only one
        k = param % 8
        if k in (1, 3, 5, 6):
            keep = {1: "f0", 3: "f2", 5: "f4", 6: "f5"}[k]
            return cls(criteria=lambda f, keep=keep: f.name != keep)
        if k in (2, 7):
            only = {2: "f0", 7: "f1"}[k]
            return cls(criteria=lambda f, only=only: f.name == only)
        return cls()
    if name == "CheckerPass":
        return cls(full_check=bool(param % 2))
    if name == "ShapeInferencePass":
        return cls(check_type=bool(param % 2), strict_mode=bool((param // 2) % 2), data_prop=True)
    return cls()


def interface(proto):
    init = {t.name for t in proto.graph.initializer}
    ins = [(i.type.tensor_type.elem_type, tuple(d.dim_value for d in i.type.tensor_type.shape.dim)) for i in proto.graph.input if i.name not in init]
    return len(ins), len(proto.graph.output)


def _evaluate(case):
    import onnx

    import onnx_ir as ir
    from onnx_ir import passes
    from vlib import evalmodel, rmodel

    try:
        proto, features = rmodel.build(case["tape"], case.get("gen", 1))
        steps = case["steps"]
        if not steps or any(not (isinstance(s, list) and len(s) == 2) for s in steps):
            raise KeyError
    except (KeyError, TypeError):
        return dict(failures=[], nontrivial=False, classes=["malformed"])
    try:
        onnx.checker.check_model(proto, full_check=True)
        feeds = evalmodel.input_sets(proto)
        base = evalmodel.run(proto, feeds)
    except Exception:
        return dict(failures=[], nontrivial=False, classes=["seed_not_runnable"])
    fails = []
    names = [PASSES[i % len(PASSES)] for i, _ in steps]
    prelude = case.get("prelude") or []
    if not prelude and case.get("prelude_edit"):
        prelude = list(case["tape"])
        for pos, val in case["prelude_edit"]:
            if prelude:
                prelude[pos % len(prelude)] = val
    try:
        shared_ps = [make_pass(i, p) for i, p in steps]
    except Exception:
        shared_ps = None
    if prelude and shared_ps is not None:
        # history: the SAME pass objects first process another model (other tape, possibly another opset) in this
        # process; what they do to the model under test must not depend on it (no state may leak between models,
        # neither through module-level nor through per-instance caches)
        try:
            other, _ = rmodel.build(prelude, case.get("gen", 1))
            om = ir.from_proto(other)
            for q in shared_ps:
                om = q(om).model
        except Exception:
            pass
    model = ir.from_proto(proto)
    modified_any = False
    classes = []
    try:
        ps = shared_ps if shared_ps is not None else [make_pass(i, p) for i, p in steps]
        wrap = case.get("wrap", 0) % 4
        if wrap == 0:
            for p in ps:
                r = p(model)
                model = r.model
                modified_any = modified_any or r.modified
        elif wrap == 1:
            r = passes.Sequential(*ps)(model)
            model, modified_any = r.model, r.modified
        elif wrap == 2:
            r = passes.PassManager(ps, steps=1 + len(ps) % 3, early_stop=bool(len(ps) % 2))(model)
            model, modified_any = r.model, r.modified
        else:
            for p in ps:
                r = passes.functionalize(p)(model)
                model = r.model
                modified_any = modified_any or r.modified
        classes.append(["plain", "Sequential", "PassManager", "functionalize"][wrap])
        if prelude:
            classes.append("with_prelude_model")
        classes.extend(sorted("model:" + f for f in features))
    except Exception as e:
        root = e
        while root.__cause__ is not None:
            root = root.__cause__
        documented = isinstance(e, (passes.PreconditionError, passes.InvariantError)) or isinstance(root, ValueError) and ("cycle" in str(root) or "nlin" in str(root) or "unction" in str(root))
        if documented:
            return dict(failures=[], nontrivial=False, classes=["pass_rejected_input"])
        import traceback

        tb = traceback.extract_tb(root.__traceback__)
        where = [f"{os.path.basename(f.filename)}:{f.name}" for f in tb if "onnx_ir" in f.filename][-1:] or ["?"]
        culprit = '@'
        return dict(failures=[(f"crash/{culprit}/{type(root).__name__}@{where[0]}", f"passes {names} raised {type(root).__name__}: {root}"[:400])], nontrivial=True, classes=["crash"])
    try:
        after = ir.to_proto(model)
    except Exception as e:
        culprit = '@'
        return dict(failures=[(f"unserializable-after/{culprit}/{type(e).__name__}", f"after {names} the model cannot be serialized: {type(e).__name__}: {e}"[:400])], nontrivial=True, classes=["crash"])
    ia, ib = interface(proto), interface(after)
    if ia != ib:
        fails.append((f"interface-changed/@", f"passes {names}: (#non-initializer inputs, #outputs) {ia} -> {ib}"))
    try:
        onnx.checker.check_model(after, full_check=True)
        checker_ok = True
    except Exception as e:
        checker_ok = False
        fails.append((f"checker-rejects-after/@", f"passes {names}: the ONNX checker accepted the model before and rejects it after: {str(e)[:300]}"))
    if ia == ib:
        try:
            got = evalmodel.run(after, feeds)
            d = evalmodel.same_outputs(base, got)
            if d:
                # e.g. onnxruntime's BatchNormalization (training mode) aliases its mean/var inputs with outputs, so
                # merging equal initializers changes ITS result although the model computes the same function
                verdict = _second_opinion(proto, after, feeds)
                if verdict == "agree":
                    classes.append("engine_specific_difference")
                else:
                    fails.append((f"outputs-differ/@", f"passes {names}: {d} (reference evaluator: {verdict})"))
        except Exception as e:
            verdict = _second_opinion(proto, after, feeds)
            if verdict == "agree":
                classes.append("engine_specific_rejection")
            elif checker_ok or verdict == "differ":
                fails.append((f"not-runnable-after/@", f"passes {names}: onnxruntime ran the original but not the transformed model ({str(e)[-200:]}); reference evaluator: {verdict}"))
    interesting = bool(features & {"control_flow_capture", "function_call", "duplicate_subexpression", "duplicate_initializer", "optional_input", "optional_output", "subgraph_initializer"})
    seen, out = set(), []
    for b, m in fails:
        if b not in seen:
            seen.add(b)
            out.append((b, m))
    return dict(failures=out, nontrivial=bool(modified_any) and interesting, classes=classes + (["modified"] if modified_any else ["unmodified"]))


def _second_opinion(before, after, feeds):
    try:
        from onnx.reference import ReferenceEvaluator
        from vlib import evalmodel

        def run(p):
            ev = ReferenceEvaluator(p)
            init = {t.name for t in p.graph.initializer}
            names = [i.name for i in p.graph.input if i.name not in init]
            return [ev.run(None, dict(zip(names, f))) for f in feeds]

        a = run(before)
        b = run(after)
        return "agree" if evalmodel.same_outputs(a, b) is None else "differ"
    except Exception as e:
        return f"unavailable ({type(e).__name__})"


def execute(case):
    """Run the case; attribute each failure clause to the single pass that reproduces it alone, if any."""
    out = _evaluate(case)
    if not out.get("failures"):
        return out
    steps = case["steps"]
    singles = {}
    if len(steps) > 1:
        for st_ in steps:
            name = PASSES[st_[0] % len(PASSES)]
            if name in singles:
                continue
            try:
                r = _evaluate(dict(case, steps=[st_], wrap=0))
                singles[name] = {b for b, _ in r.get("failures", [])}
            except Exception:
                singles[name] = set()
    fixed = []
    for b, m in out["failures"]:
        culprit = None
        if len(steps) == 1:
            culprit = PASSES[steps[0][0] % len(PASSES)]
        else:
            for name, bs in singles.items():
                if b in bs:
                    culprit = name
                    break
        if culprit is None:
            # some effects need two rounds of one and the same pass (the first round makes something unused, the second acts
            # on that): still that pass's doing
            for st_ in steps:
                name = PASSES[st_[0] % len(PASSES)]
                if name + "*2" in singles:
                    continue
                try:
                    r = _evaluate(dict(case, steps=[st_, st_], wrap=0))
                    singles[name + "*2"] = {x for x, _ in r.get("failures", [])}
                    if case.get("wrap", 0) % 4:  # (under the case's own wrapper too: a functional pass works on a clone)
                        r = _evaluate(dict(case, steps=[st_, st_]))
                        singles[name + "*2"] |= {x for x, _ in r.get("failures", [])}
                except Exception:
                    singles[name + "*2"] = set()
                if b in singles[name + "*2"]:
                    culprit = name
                    break
        if culprit is None:
            culprit = "sequence-only:" + PASSES[steps[-1][0] % len(PASSES)]
        fixed.append((b.replace("/@", "/" + culprit), m))
    out["failures"] = fixed
    return out

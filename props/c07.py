"""C07 - external-data save/load preserves every initializer; layout is well formed."""

from __future__ import annotations

import os
import shutil
import tempfile

import numpy as np

from vlib import refenc

ID = "C07"
LEVEL = "exploration"
TECHNIQUE = (
    "property-based round-trip testing over a configuration grid: generated models (initializer kinds, dtypes, size "
    "classes around the threshold / shard limit, shared tensor objects, name mismatches) x generated save options x "
    "backend; oracle = reload and compare with reference bytes from the source data (independent codec), a layout "
    "checker reading the saved ModelProto with the onnx package and the files directly, and object identity of "
    "const_value before/after save (also when save raises)"
)
LEVEL_TEXT = (
    "Generated exploration of models x write options x backends (ir.save with external_data, save_safetensors), "
    "including fault variants (failing lazy tensor, pre-existing shard file). Layout clauses are validity predicates; "
    "content clauses compare with reference bytes computed from the generated bit patterns, not from the library."
)
TRUSTED = "vlib/refenc.py reference codec, onnx protobuf (to read the saved model), the file system"
RULE = (
    "case = list of initializer specs (graph main/sub, kind in-memory/lazy/packed/proto-backed/already-external same or "
    "other file, dtype, size class 0/1/threshold-1/threshold/threshold+1/4kB+1/>shard limit, alias of an earlier tensor "
    "object, tensor name equal/different/None) + options (size_threshold_bytes, alignment, align_threshold, "
    "max_shard_size_bytes, max_workers, max_in_flight_bytes, backend, destination naming, fault). Non-trivial = >=2 "
    "initializers above the threshold and >=1 of: >=2 shard files, alignment padded, sub-byte dtype, lazy/packed/"
    "already-external kind, workers>1. distinct = case JSON."
)
ASSUMPTIONS = [
    "string initializers cannot be externalised by either backend and are not generated",
    "safetensors: only element types the backend maps; equality with the threshold is backend specific and not asserted",
    "alignment clause: offset is a multiple of max(4096, alignment) for tensors strictly larger than align_threshold (raw data backend only)",
]
BUDGET = {"quick": (16, 110), "thorough": (16, 3000)}

DTYPES = [1, 7, 10, 16, 2, 3, 9, 11, 6, 21, 22, 23, 25, 26, 14, 15, 17, 12]
KINDS = ["tensor", "lazy", "packed", "proto", "external_other", "external_same", "lazy_cached"]
DESTS = ["m.data", "m.v2.data", "sub/dir/w.bin", "weights", "a.b.c.bin"]
STEMS = ["model.onnx", "my.model.v1.onnx", "net"]


PHASES = ["main", "inplace"]
PHASE_WEIGHTS = {"main": 1.0, "inplace": 0.1}


def strategy(tier, phase):
    from hypothesis import strategies as st

    if phase == "inplace":
        # a sharded model is loaded back and saved again over itself with a shard limit that keeps the NUMBER of shards (and so
        # the file names) but moves tensors between them: sizes (8u, 4u, 4u[, extra]), limits 12u+slack and 8u+slack
        return st.fixed_dictionaries({"inplace": st.fixed_dictionaries({"u": st.sampled_from([8, 25, 100, 1000]), "backend": st.integers(0, 1), "swap": st.booleans(),
                                                                         "extra": st.sampled_from([0, 0, 1, 3]), "threshold": st.sampled_from([0, 0, 16])})})

    spec = st.fixed_dictionaries({
        "g": st.sampled_from([0, 0, 1, 2, 3, 4]), "kind": st.integers(0, len(KINDS) - 1), "dtype": st.integers(0, len(DTYPES) - 1),
        "size": st.integers(0, 8), "alias": st.sampled_from([-1, -1, -1, 0, 1]), "tname": st.integers(0, 2), "seed": st.integers(0, 2**30),
    })
    opts = st.fixed_dictionaries({
        "threshold": st.sampled_from([0, 16, 100, 256, 1000]), "alignment": st.sampled_from([None, None, 1, 3, 512, 4096, 5000, 12288, 65536, 100000]),
        "align_threshold": st.sampled_from([0, 64, 1000, 1048576]), "shard": st.sampled_from([None, None, 64, 300, 5000, 100000]),
        "workers": st.sampled_from([None, 1, 2, 4]), "inflight": st.sampled_from([1, 100, 4096, 2**26]),
        "backend": st.sampled_from([0, 0, 1]), "dest": st.integers(0, len(DESTS) - 1), "stem": st.integers(0, len(STEMS) - 1),
        "fault": st.sampled_from([0, 0, 0, 0, 1, 2, 3]), "resave": st.sampled_from([None, None, 0, 1, 2, 3, 4, 5, 7]),
    })
    return st.fixed_dictionaries({"inits": st.lists(spec, min_size=1, max_size=8), "opts": opts})


class Boom(Exception):
    pass


def _size_elems(cls, threshold, shard, code):
    b = refenc.DT[code][0]
    per = lambda nbytes: max(0, (nbytes * 8) // b)
    t = max(threshold, 8)
    sh = shard or 2000
    table = [0, 1, per(t - 1) if t > 1 else 1, per(t), per(t) + max(1, 8 // min(b, 8)), per(4097), per(sh + 40),
             per(sh // 2 + 1), per(sh - sh // 2)]  # the last two add up to exactly limit+1 for 8-bit types
    return int(table[cls % len(table)])


def build(case, workdir):
    """Returns (model, expected list of (graph_idx, value_name, code, shape, ref_bytes), originals)."""
    import onnx

    import onnx_ir as ir
    from onnx_ir import serde

    opts = case["opts"]
    inits_main, inits_sub, inits_sub2, inits_gs, inits_fs = [], [], [], [], []
    GN = ["main", "sub", "sub2", "gsub", "fsub"]
    made = []  # (tensor, code, shape, ref)
    expected = []
    other_file = os.path.join(workdir, "other.bin")
    same_rel = DESTS[opts["dest"] % len(DESTS)]
    same_file = os.path.join(workdir, same_rel)
    other_off = 0
    same_off = 0
    backend = opts["backend"] % 2
    st_map = None
    if backend == 1:
        from onnx_ir import _safetensors as _st

        st_map = {int(k) for k in _st._IR_DTYPE_TO_SAFETENSORS_DTYPE}
    for i, sp in enumerate(case["inits"]):
        code = DTYPES[sp["dtype"] % len(DTYPES)]
        if st_map is not None and code not in st_map:
            code = 1
        b, kindc = refenc.DT[code]
        name = f"w{i}"
        # 0 main graph, 1/2 the branches of an If, 3 a graph held in a list-of-graphs attribute of a custom node,
        # 4 a branch of an If inside the body of a model-local function (raw backend only)
        gi = sp["g"] % 5 if backend == 0 else sp["g"] % 3
        if gi in (1, 2) and backend == 0:
            # sibling subgraphs may use the same initializer name (the scopes are disjoint): w-names are shared pairwise
            cand_name = f"ws{i // 2}"
            if not any(v_.name == cand_name for v_ in (inits_sub if gi == 1 else inits_sub2)):
                name = cand_name
        if sp["alias"] >= 0 and sp["alias"] < len(made) and gi != 4:
            tensor, code, shape, ref = made[sp["alias"]]
        else:
            n = _size_elems(sp["size"], opts["threshold"], opts["shard"], code)
            shape = [n] if n % 2 or n == 0 else [2, n // 2]
            mask = (1 << b) - 1
            s = sp["seed"]
            pats = [((s + 7919 * j) * 2654435761 >> 3) & mask if kindc != "b" else (s + j) & 1 for j in range(n)]
            ref = refenc.encode(code, pats)
            dtype = ir.DataType(code)
            npdt = np.dtype(dtype.numpy())
            if b >= 8:
                arr = np.frombuffer(ref, dtype=npdt.newbyteorder("<") if npdt.itemsize > 1 else npdt).reshape(shape).copy()
            else:
                arr = np.array(pats, dtype=np.uint8).view(npdt).reshape(shape)
            kind = KINDS[sp["kind"] % len(KINDS)]
            if gi == 4 and kind.startswith("external"):
                # ir.save does not touch initializers of graphs nested in function bodies at all (they stay as they are):
                # an already-external one there is outside what the statement covers - in-memory kinds only
                kind = "tensor"
            tname = [name, f"other_{i}", None][sp["tname"] % 3]
            if kind == "packed" and b >= 8:
                kind = "tensor"
            if kind == "tensor":
                tensor = ir.Tensor(arr, dtype=dtype, name=tname)
            elif kind in ("lazy", "lazy_cached"):
                inner = ir.Tensor(arr, dtype=dtype, name=tname)
                if opts["fault"] == 1 and i == len(case["inits"]) - 1 and len(ref) > opts["threshold"]:
                    def thunk():
                        raise Boom("lazy tensor fails")
                else:
                    def thunk(inner=inner):
                        return inner
                tensor = ir.LazyTensor(thunk, dtype, ir.Shape(shape), cache=(kind == "lazy_cached"), name=tname)
            elif kind == "packed":
                tensor = ir.PackedTensor(np.frombuffer(ref, dtype=np.uint8).copy(), dtype, shape=shape, name=tname)
            elif kind == "proto":
                tensor = serde.TensorProtoTensor(onnx.TensorProto(name=tname or "", data_type=code, dims=shape, raw_data=ref))
            else:
                path, rel = (other_file, "other.bin") if kind == "external_other" else (same_file, same_rel)
                os.makedirs(os.path.dirname(path) or ".", exist_ok=True)
                with open(path, "ab") as f:
                    off = f.tell()
                    f.write(ref)
                    f.write(b"\xee" * 3)
                tensor = ir.ExternalTensor(rel, off, len(ref), dtype, shape=ir.Shape(shape), name=tname or name, base_dir=workdir)
            made.append((tensor, code, shape, ref))
        v = ir.Value(name=name, const_value=tensor)
        [inits_main, inits_sub, inits_sub2, inits_gs, inits_fs][gi].append(v)
        expected.append((GN[gi], name, code, list(shape), ref))
    x = ir.Value(name="x", type=ir.TensorType(ir.DataType.FLOAT), shape=ir.Shape([1]))
    inner = ir.Node("", "Identity", [inits_sub[0] if inits_sub else x], num_outputs=1, name="inner")
    inner.outputs[0].name = "inner_out"
    sub = ir.Graph([], [inner.outputs[0]], nodes=[inner], initializers=inits_sub, name="sub")
    inner2 = ir.Node("", "Identity", [inits_sub2[0] if inits_sub2 else x], num_outputs=1, name="inner2")
    inner2.outputs[0].name = "inner2_out"
    sub2 = ir.Graph([], [inner2.outputs[0]], nodes=[inner2], initializers=inits_sub2, name="sub2")
    holder = ir.Node("", "If", [x], [ir.AttrGraph("then_branch", sub), ir.AttrGraph("else_branch", sub2)], num_outputs=1, name="holder")
    holder.outputs[0].name = "y"
    main_nodes = [holder]
    opsets = {"": 20}
    if inits_gs:
        inner3 = ir.Node("", "Identity", [inits_gs[0]], num_outputs=1, name="inner3")
        inner3.outputs[0].name = "inner3_out"
        gsub = ir.Graph([], [inner3.outputs[0]], nodes=[inner3], initializers=inits_gs, name="gsub")
        empty = ir.Graph([], [], nodes=[], name="gsub_empty")
        multi = ir.Node("custom.ops", "Multi", [x], [ir.Attr("branches", ir.AttributeType.GRAPHS, [empty, gsub])], num_outputs=1, name="multi")
        multi.outputs[0].name = "multi_out"
        main_nodes.append(multi)
        opsets["custom.ops"] = 1
    g = ir.Graph([x], [holder.outputs[0]], nodes=main_nodes, initializers=inits_main, name="main", opset_imports=opsets)
    model = ir.Model(g, ir_version=10)
    if inits_fs:
        fx = ir.Value(name="fx")
        fin = ir.Node("", "Identity", [inits_fs[0]], num_outputs=1, name="f_inner")
        fin.outputs[0].name = "f_inner_out"
        fsub = ir.Graph([], [fin.outputs[0]], nodes=[fin], initializers=inits_fs, name="fsub")
        fneg = ir.Node("", "Identity", [fx], num_outputs=1, name="f_else_id")
        fneg.outputs[0].name = "f_else_out"
        felse = ir.Graph([], [fneg.outputs[0]], nodes=[fneg], name="fsub_else")
        fif = ir.Node("", "If", [fx], [ir.AttrGraph("then_branch", fsub), ir.AttrGraph("else_branch", felse)], num_outputs=1, name="f_if")
        fif.outputs[0].name = "fy"
        fn = ir.Function("local", "fn", graph=ir.Graph([fx], [fif.outputs[0]], nodes=[fif], name="fn_body", opset_imports={"": 20}), attributes=[])
        model.functions[fn.identifier()] = fn
        g.opset_imports["local"] = 1
    return model, expected


def all_graphs(model):
    """Every graph of the model: main graph, its nested graphs, function bodies and the graphs nested in them."""
    out = list(model.graphs())
    seen = {id(g) for g in out}
    for f in model.functions.values():
        for g in [f.graph] + list(f.graph.subgraphs()):
            if id(g) not in seen:
                seen.add(id(g))
                out.append(g)
    return out


def execute(case):
    if "inplace" in case:
        return _inplace_case(case["inplace"])
    return _execute_main(case)


def _execute_main(case):
    import onnx

    import onnx_ir as ir

    try:
        opts = case["opts"]
        _ = case["inits"][0]["kind"]
    except (KeyError, TypeError, IndexError):
        return dict(failures=[], nontrivial=False, classes=["malformed"])
    if not ((opts["shard"] is None or opts["shard"] > 0) and (opts["alignment"] is None or opts["alignment"] > 0) and opts["inflight"] > 0
            and opts["threshold"] >= 0 and opts["align_threshold"] >= 0 and (opts["workers"] is None or opts["workers"] > 0)):
        return dict(failures=[], nontrivial=False, classes=["malformed"])  # outside the documented option ranges
    workdir = os.path.realpath(tempfile.mkdtemp(prefix="verif_c07_"))
    fails = []
    classes = []
    nontrivial = False
    try:
        model, expected = build(case, workdir)
        backend = opts["backend"] % 2
        stem = STEMS[opts["stem"] % len(STEMS)]
        mpath = os.path.join(workdir, stem)
        dest = DESTS[opts["dest"] % len(DESTS)]
        values = [v for g in all_graphs(model) for v in g.initializers.values()]
        ids_before = [id(v.const_value) for v in values]
        preexisting = {}
        if opts["fault"] == 2 and opts["shard"] is not None and backend == 0:
            # a file that collides with the first shard name of a plausible layout
            from onnx_ir import _shard_filename

            for total in (1, 2, 3):
                p = os.path.join(workdir, _shard_filename.get_shard_filename(dest, 1, total) if hasattr(_shard_filename, "get_shard_filename") else dest)
                os.makedirs(os.path.dirname(p), exist_ok=True)
                if not os.path.exists(p):
                    with open(p, "wb") as f:
                        f.write(b"PRE-EXISTING")
                    preexisting[p] = b"PRE-EXISTING"
        if opts["fault"] == 3:
            # the data files can be written, but the model itself cannot be serialized afterwards
            bad = ir.Node("", "Relu", [model.graph.inputs[0]], [ir.Attr("sp", ir.AttributeType.SPARSE_TENSOR, None)], num_outputs=1, name="unserializable")
            model.graph.append(bad)
        called = []

        def cb(t, info):
            called.append((id(t), info.index, info.filename))

        exc = None
        try:
            if backend == 0:
                os.makedirs(os.path.dirname(os.path.join(workdir, dest)) or workdir, exist_ok=True)
                ir.save(model, mpath, external_data=dest, size_threshold_bytes=opts["threshold"], max_shard_size_bytes=opts["shard"],
                        callback=cb, max_workers=opts["workers"], max_in_flight_bytes=opts["inflight"], alignment=opts["alignment"],
                        align_threshold=opts["align_threshold"])
            else:
                ir.save_safetensors(model, mpath, size_threshold_bytes=opts["threshold"], max_shard_size_bytes=opts["shard"], callback=cb)
        except Exception as e:
            exc = e
        bname = ["raw", "safetensors"][backend]
        # (3) same tensor objects afterwards, success or not
        ids_after = [id(v.const_value) for v in values]
        if ids_after != ids_before:
            fails.append((f"const-value-replaced/{bname}/{'raised' if exc else 'returned'}", f"save {'raised ' + type(exc).__name__ if exc else 'returned'} but {sum(a != b for a, b in zip(ids_before, ids_after))} initializers hold different tensor objects than before"))
        for p, data in preexisting.items():
            if open(p, "rb").read() != data:
                fails.append(("preexisting-shard-file-changed", f"{p} was modified by a sharded save"))
        if exc is not None:
            classes.append(f"raised_{type(exc).__name__}")
            expected_failure = opts["fault"] in (1, 2, 3) or isinstance(exc, (Boom, FileExistsError))
            root = exc
            while root.__cause__ is not None:
                root = root.__cause__
            if not expected_failure and not isinstance(root, (Boom, FileExistsError)):
                import traceback

                tb = traceback.extract_tb(root.__traceback__)
                where = [f"{os.path.basename(f.filename)}:{f.name}" for f in tb if "onnx_ir" in f.filename][-1:] or ["?"]
                fails.append((f"save-raised/{bname}/{type(root).__name__}@{where[0]}", f"save raised {type(root).__name__}: {root}"[:300]))
            return dict(failures=_dedupe(fails), nontrivial=True, classes=classes + [bname])
        classes.append(bname)
        # (1) reload
        loaded = ir.load(mpath)
        lgraphs = all_graphs(loaded)
        above = 0
        kinds_present = set()
        for (gi, name, code, shape, ref), sp in zip(expected, case["inits"]):
            g = [x for x in lgraphs if x.name == gi][0]
            v = g.initializers.get(name)
            if v is None or v.const_value is None:
                fails.append((f"initializer-missing/{bname}", f"initializer {name} missing after reload"))
                continue
            t = v.const_value
            n = len(ref)
            if n > opts["threshold"]:
                above += 1
                kinds_present.add(KINDS[sp["kind"] % len(KINDS)])
            try:
                if int(t.dtype) != code or list(t.shape.numpy()) != shape:
                    fails.append((f"dtype-shape/{bname}/{_dc(code)}", f"{name}: reloaded {t.dtype}{list(t.shape.numpy())} expected {refenc.NAMES[code]}{shape}"))
                got = bytes(t.tobytes()) if n else b""
                if got != ref:
                    fails.append((f"bytes-differ/{bname}/{_dc(code)}", f"{name} ({refenc.NAMES[code]}{shape}, kind {KINDS[sp['kind'] % len(KINDS)]}): reloaded bytes {got[:12].hex()} (len {len(got)}) != source {ref[:12].hex()} (len {n})"))
            except Exception as e:
                fails.append((f"reload-read-raised/{bname}/{_dc(code)}/{type(e).__name__}", f"{name} ({refenc.NAMES[code]}{shape}): reading the reloaded tensor raised {type(e).__name__}: {e}"[:300]))
            is_ext = isinstance(t, ir.ExternalTensor)
            if gi == "fsub":
                continue  # (the statement speaks of the main graph and its subgraphs: no threshold clause inside function bodies)
            if n > opts["threshold"] and not is_ext:
                fails.append((f"above-threshold-inline/{bname}", f"{name}: {n} bytes > threshold {opts['threshold']} but stored inline"))
            if n < opts["threshold"] and is_ext:
                fails.append((f"below-threshold-external/{bname}", f"{name}: {n} bytes < threshold {opts['threshold']} but stored externally"))
        # (2) layout from the saved proto
        mp = onnx.load(mpath, load_external_data=False)
        entries = []

        def walk(gp):
            for tp in gp.initializer:
                if tp.data_location == onnx.TensorProto.EXTERNAL:
                    d = {e.key: e.value for e in tp.external_data}
                    entries.append(((gp.name, tp.name), d.get("location"), int(d.get("offset", 0)), int(d["length"]) if "length" in d else None, tp))
            for n_ in gp.node:
                for a in n_.attribute:
                    if a.HasField("g"):
                        walk(a.g)
                    for sg in a.graphs:
                        walk(sg)

        walk(mp.graph)
        for fp_ in mp.functions:
            for n_ in fp_.node:
                for a in n_.attribute:
                    if a.HasField("g"):
                        walk(a.g)
                    for sg in a.graphs:
                        walk(sg)
        by_file = {}
        for name, loc, off, length, tp in entries:
            by_file.setdefault(loc, []).append((name, off, length, tp))
        exp_by_name = {(e[0], e[1]): e for e in expected}
        padded = False
        for loc, lst in by_file.items():
            fpath = os.path.join(workdir, loc)
            if not os.path.isfile(fpath):
                fails.append((f"layout-file-missing/{bname}", f"data file {loc} referenced by the model does not exist"))
                continue
            fsize = os.path.getsize(fpath)
            data = open(fpath, "rb").read()
            prev_end = 0
            total_payload = 0
            for name, off, length, tp in lst:
                ref = exp_by_name[name][4]
                ln = length if length is not None else len(ref)
                if off < prev_end and backend == 0:
                    fails.append((f"layout-order-or-overlap/{bname}", f"{loc}: {name} at {off} starts before the end {prev_end} of the previous tensor (declaration order / overlap)"))
                if off + ln > fsize:
                    fails.append((f"layout-outside-file/{bname}", f"{loc}: {name} range [{off},{off + ln}) exceeds file size {fsize}"))
                if ln != len(ref):
                    fails.append((f"layout-length/{bname}", f"{loc}: {name} length {ln} != {len(ref)}"))
                elif data[off: off + ln] != ref:
                    fails.append((f"layout-bytes/{bname}", f"{loc}: bytes at [{off},{off + ln}) differ from the source data of {name}"))
                if backend == 0 and opts["alignment"] is not None and len(ref) > opts["align_threshold"]:
                    factor = max(4096, opts["alignment"])
                    if off % factor:
                        fails.append((f"layout-alignment/{bname}", f"{loc}: {name} ({len(ref)} B > align_threshold) at offset {off} not a multiple of {factor}"))
                    if off != prev_end:
                        padded = True
                prev_end = max(prev_end, off + ln)
                total_payload += ln
            if backend == 1 and loc.endswith(".safetensors"):
                spans = sorted((off, off + (length if length is not None else len(exp_by_name[name][4]))) for name, off, length, tp in lst)
                for (a0, a1), (b0, b1) in zip(spans, spans[1:]):
                    if b0 < a1:
                        fails.append((f"layout-overlap/{bname}", f"{loc}: ranges [{a0},{a1}) and [{b0},{b1}) overlap"))
            if opts["shard"] is not None and len(lst) > 1 and loc not in ("other.bin",) and not (backend == 1 and not loc.endswith(".safetensors")):
                size_on_disk = prev_end if backend == 0 else total_payload
                if size_on_disk > opts["shard"]:
                    fails.append((f"layout-shard-over-limit/{bname}", f"{loc}: holds {len(lst)} tensors with {size_on_disk} bytes > max_shard_size_bytes {opts['shard']}"))
        names_ext = [e[0] for e in entries]
        if len(set(names_ext)) != len(names_ext):
            fails.append((f"layout-tensor-in-two-shards/{bname}", "an initializer is listed in two external entries"))
        nontrivial = above >= 2 and (len(by_file) >= 2 or padded or any(refenc.DT[e[2]][0] < 8 for e in expected) or bool(kinds_present - {"tensor", "proto"}) or (opts["workers"] or 1) > 1)
        if len(by_file) >= 2:
            classes.append("sharded")
        if padded:
            classes.append("alignment_padded")
        if (opts["workers"] or 1) > 1:
            classes.append("workers>1")
        # ---- history: the model that was loaded back is saved again over itself, with another shard limit ------------------
        if opts.get("resave") is not None and not fails:
            alt = [None, 64, 300, 5000][opts["resave"] % 4]
            exc2 = None
            if opts["resave"] >= 4:
                # ... after the whole model directory was moved and the loaded model re-based onto the new place
                moved = workdir + "_moved"
                os.rename(workdir, moved)
                os.makedirs(workdir)  # (so that the clean-up below finds it)
                mpath = os.path.join(moved, os.path.relpath(mpath, workdir))
                ir.external_data.set_base_dir(loaded.graph, os.path.dirname(mpath))
                for f_ in loaded.functions.values():
                    ir.external_data.set_base_dir(f_.graph, os.path.dirname(mpath))
                classes.append("directory_moved_and_rebased_before_saving_again")
            try:
                if backend == 0:
                    ir.save(loaded, mpath, external_data=dest, size_threshold_bytes=opts["threshold"], max_shard_size_bytes=alt)
                else:
                    ir.save_safetensors(loaded, mpath, size_threshold_bytes=opts["threshold"], max_shard_size_bytes=alt)
            except Exception as e:
                exc2 = e
            classes.append("saved_again_in_place:" + ("refused" if isinstance(exc2, FileExistsError) else "raised" if exc2 else "returned"))
            if exc2 is not None and not isinstance(exc2, FileExistsError):
                fails.append((f"save-again-in-place-raised/{bname}/{type(exc2).__name__}", f"saving the reloaded model over itself (shard limit {opts['shard']} -> {alt}) raised {type(exc2).__name__}: {exc2}"[:300]))
            # whatever happened, the model on disk must still hold every initializer
            try:
                again = ir.load(mpath)
                agraphs = all_graphs(again)
                for (gi, name, code, shape, ref) in expected:
                    v = [x for x in agraphs if x.name == gi][0].initializers.get(name)
                    got = bytes(v.const_value.tobytes()) if v is not None and v.const_value is not None and len(ref) else b""
                    if got != ref:
                        fails.append((f"bytes-differ-after-saving-again-in-place/{bname}", f"{name}: after saving the reloaded model over itself (shard limit {opts['shard']} -> {alt}, {'raised ' + type(exc2).__name__ if exc2 else 'returned'}) the model on disk gives {got[:8].hex()} (len {len(got)}), expected {ref[:8].hex()} (len {len(ref)})"))
                        break
            except Exception as e:
                fails.append((f"unreadable-after-saving-again-in-place/{bname}/{type(e).__name__}", f"after saving the reloaded model over itself (shard limit {opts['shard']} -> {alt}, {'raised ' + type(exc2).__name__ if exc2 else 'returned'}) the model on disk cannot be read: {type(e).__name__}: {e}"[:300]))
    except Exception as e:
        import traceback

        return dict(failures=[("harness-or-library-crash/" + type(e).__name__, traceback.format_exc()[-600:])], nontrivial=False, classes=["crash"])
    finally:
        shutil.rmtree(workdir, ignore_errors=True)
        shutil.rmtree(workdir + "_moved", ignore_errors=True)
    return dict(failures=_dedupe(fails), nontrivial=nontrivial, classes=classes)


def _inplace_case(p):
    """Save sharded, load, save again over itself with another distribution over equally many shards, load: every initializer
    must still be there with its bytes.  (A refusal - FileExistsError - is fine, damage is not.)"""
    import onnx_ir as ir

    u, backend = p["u"], p["backend"] % 2
    sizes = [8 * u, 4 * u, 4 * u] + [u] * p.get("extra", 0)
    l1, l2 = 12 * u + u // 2, 8 * u + u // 2
    if p.get("swap"):
        l1, l2 = l2, l1
    fails, classes = [], ["saved_again_in_place_same_shard_count", ["raw", "safetensors"][backend]]
    wd = tempfile.mkdtemp(prefix="verif_c07_inplace_")
    try:
        refs = [bytes((i * 37 + 11 * j) & 0xFF for j in range(n)) for i, n in enumerate(sizes)]
        vals = [ir.Value(name=f"w{i}", const_value=ir.Tensor(np.frombuffer(r, dtype=np.uint8).copy(), name=f"w{i}")) for i, r in enumerate(refs)]
        x = ir.Value(name="x", type=ir.TensorType(ir.DataType.FLOAT), shape=ir.Shape([1]))
        n = ir.Node("", "Identity", [x], num_outputs=1, name="n")
        n.outputs[0].name = "y"
        model = ir.Model(ir.Graph([x], [n.outputs[0]], nodes=[n], initializers=vals, name="main", opset_imports={"": 20}), ir_version=10)
        mpath = os.path.join(wd, "m.onnx")

        def save(m, limit):
            if backend == 0:
                ir.save(m, mpath, external_data="m.data", size_threshold_bytes=p["threshold"], max_shard_size_bytes=limit)
            else:
                ir.save_safetensors(m, mpath, size_threshold_bytes=p["threshold"], max_shard_size_bytes=limit)

        save(model, l1)
        files1 = sorted(os.listdir(wd))
        loaded = ir.load(mpath)
        exc = None
        try:
            save(loaded, l2)
        except Exception as e:
            exc = e
        classes.append("refused" if isinstance(exc, FileExistsError) else "raised" if exc else "returned")
        bname = ["raw", "safetensors"][backend]
        what = f"sizes {sizes}, shard limit {l1} -> {l2}, files before {files1}: second save {'raised ' + type(exc).__name__ if exc else 'returned'}"
        try:
            again = ir.load(mpath)
            for i, r in enumerate(refs):
                v = again.graph.initializers.get(f"w{i}")
                got = bytes(v.const_value.tobytes()) if v is not None and v.const_value is not None else None
                if got != r:
                    fails.append((f"initializer-lost-by-saving-again-in-place/{bname}", f"w{i}: {what}; the model on disk now gives {None if got is None else got[:8].hex()} instead of {r[:8].hex()}"[:400]))
                    break
        except Exception as e:
            fails.append((f"initializer-lost-by-saving-again-in-place/{bname}", f"{what}; the model on disk cannot be read any more: {type(e).__name__}: {e}"[:400]))
    except Exception as e:
        import traceback

        return dict(failures=[("harness-or-library-crash/" + type(e).__name__, traceback.format_exc()[-600:])], nontrivial=False, classes=["crash"])
    finally:
        shutil.rmtree(wd, ignore_errors=True)
    return dict(failures=fails, nontrivial=True, classes=classes)


def _dc(code):
    b = refenc.DT[code][0]
    return f"{b}bit" if b < 8 else ("complex" if refenc.DT[code][1] == "c" else "byte+")


def _dedupe(fails):
    seen, out = set(), []
    for b, m in fails:
        if b not in seen:
            seen.add(b)
            out.append((b, m))
    return out

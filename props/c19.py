"""C19 - device annotations follow object identity and never dangle."""

from __future__ import annotations

ID = "C19"
LEVEL = "exploration"
TECHNIQUE = (
    "stateful property-based testing with an identity oracle: generated interleavings of shard / set_pipeline_stage / "
    "add_/remove_device_configuration with graph edits, renames, clones and proto round trips; after every step every "
    "annotation must target (by identity) a current input/output of its node and a configuration registered on its "
    "model, the library's own checker must report nothing, and serialized references must use the current names"
)
LEVEL_TEXT = (
    "Generated-history exploration over models at IR version 11-13 with values of known and unknown rank, shared values "
    "and values used twice by one node. Invalid annotation requests listed by the statement are generated on purpose and "
    "must raise without effect."
)
TRUSTED = "harness identity oracle; onnx protobuf for reading the serialized references"
RULE = (
    "case = IR version + script of ops (add configuration, shard with valid arguments, shard with one invalid argument "
    "[axis out of range, axis repeated modulo rank, num_shards<1, negative stage, any stage other than the recorded one - 0 included, value not on the node], "
    "set_pipeline_stage (recorded stage/spec/devices checked after every accepted request), rename value (also to the name of an "
    "outer value the nested graph never uses - legal shadowing), replace_input_with, resize_inputs/outputs, replace_all_uses_with, safe node "
    "removal, Model.clone / Graph.clone (continue on the clone), remove configuration by name/object with cascade, "
    "to_proto->from_proto (continue on the result)). Non-trivial = >=1 successful annotation followed by >=1 "
    "edit/clone/round trip that affects an annotated node. distinct = case JSON."
)
ASSUMPTIONS = [
    "requests the statement does not list as invalid (device index >= num_devices, unregistered configuration, later rank change) are not generated",
    "values are renamed only to non-empty names (an unnamed sharded value cannot be serialized and the library's checker reports it by design)",
]
BUDGET = {"quick": (16, 1500), "thorough": (16, 10000)}
OPN = 18
WEIGHTED = [0, 1, 1, 1, 2, 2, 2, 3, 4, 4, 4, 5, 6, 6, 7, 8, 9, 10, 11, 11, 12, 13, 14, 14, 15, 16, 17]


def strategy(tier, phase):
    from hypothesis import strategies as st

    # op kinds are drawn through a weighting table (annotation requests are what everything else reacts to)
    op = st.tuples(st.integers(0, len(WEIGHTED) - 1).map(lambda i: WEIGHTED[i]), st.integers(0, 30), st.integers(0, 30), st.integers(0, 30), st.integers(0, 30)).map(list)
    return st.fixed_dictionaries({"irv": st.sampled_from([11, 12, 13]), "shadow": st.booleans(), "deep": st.booleans(), "ops": st.sampled_from([6, 12, 25]).flatmap(lambda n: st.lists(op, min_size=n // 2, max_size=n))})


def build(irv, shadow=False, deep=False):
    import onnx_ir as ir

    F = ir.TensorType(ir.DataType.FLOAT)
    a = ir.Value(name="a", type=F, shape=ir.Shape([2, 3, 4]))
    b = ir.Value(name="b", type=F)  # unknown rank
    w = ir.Value(name="w", type=F, shape=ir.Shape([3, 4]), const_value=ir.tensor([[0.0] * 4] * 3, name="w"))
    n0 = ir.Node("", "Add", [a, b], num_outputs=1, name="n0")
    n0.outputs[0].name = "t0"
    n0.outputs[0].shape = ir.Shape([2, 3, 4])
    n0.outputs[0].type = F
    n1 = ir.Node("", "Mul", [n0.outputs[0], n0.outputs[0]], num_outputs=2, name="n1")  # same value twice
    n1.outputs[0].name, n1.outputs[1].name = "t1", "t1b"
    n1.outputs[0].shape = ir.Shape(["N", 4])
    n2 = ir.Node("", "MatMul", [n1.outputs[0], w], num_outputs=1, name="n2")
    n2.outputs[0].name = "t2"
    n3 = ir.Node("", "Relu", [n0.outputs[0]], num_outputs=1, name="n3")  # t0 shared by n1 and n3
    n3.outputs[0].name = "t3"
    n3.outputs[0].shape = ir.Shape([2, 3, 4])
    # control flow: nodes inside the branches use values captured from the enclosing graph (t0, a, t1) and a local one
    cond = ir.Value(name="cond", type=ir.TensorType(ir.DataType.BOOL), shape=ir.Shape([]))
    i0 = ir.Node("", "Relu", [n0.outputs[0]], num_outputs=1, name="then_relu")
    i0.outputs[0].name, i0.outputs[0].type, i0.outputs[0].shape = "ti0", F, ir.Shape([2, 3, 4])
    i1 = ir.Node("", "Add", [i0.outputs[0], a], num_outputs=1, name="then_add")
    i1.outputs[0].name, i1.outputs[0].type, i1.outputs[0].shape = "ti1", F, ir.Shape([2, 3, 4])
    then_nodes = [i0, i1]
    if deep:
        # control flow inside the branch: nodes two levels below the main graph use a value of the branch (ti0), a value of
        # the main graph (a) and the branch's own condition source
        d0 = ir.Node("", "Neg", [i0.outputs[0]], num_outputs=1, name="deep_neg")
        d0.outputs[0].name, d0.outputs[0].type, d0.outputs[0].shape = "td0", F, ir.Shape([2, 3, 4])
        d1 = ir.Node("", "Add", [a, i0.outputs[0]], num_outputs=1, name="deep_add")
        d1.outputs[0].name, d1.outputs[0].type, d1.outputs[0].shape = "td1", F, ir.Shape([2, 3, 4])
        i2 = ir.Node("", "If", [cond], [ir.AttrGraph("then_branch", ir.Graph([], [d0.outputs[0]], nodes=[d0], name="deep_then")),
                                        ir.AttrGraph("else_branch", ir.Graph([], [d1.outputs[0]], nodes=[d1], name="deep_else"))], num_outputs=1, name="then_if")
        i2.outputs[0].name = "ti2"
        then_nodes = [i0, i2, i1]
    then_g = ir.Graph([], [i1.outputs[0]], nodes=then_nodes, name="then_g")
    e0 = ir.Node("", "Neg", [n1.outputs[0]], num_outputs=1, name="else_neg")
    e0.outputs[0].name, e0.outputs[0].type = "te0", F
    else_g = ir.Graph([], [e0.outputs[0]], nodes=[e0], name="else_g")
    n4 = ir.Node("", "If", [cond], [ir.AttrGraph("then_branch", then_g), ir.AttrGraph("else_branch", else_g)], num_outputs=1, name="n4")
    n4.outputs[0].name = "t4"
    g = ir.Graph([a, b, cond], [n2.outputs[0], n3.outputs[0], n4.outputs[0]], nodes=[n0, n1, n2, n3, n4], initializers=[w], name="g", opset_imports={"": 20})
    if shadow:
        # values of the branches carry names of main-graph values that their graph never uses (legal shadowing)
        i0.outputs[0].name, i1.outputs[0].name, e0.outputs[0].name = "t3", "b", "t2"
    model = ir.Model(g, ir_version=irv)
    # a model-local function whose body holds control flow: annotated nodes may sit two levels below the function
    fx = ir.Value(name="fx", type=F, shape=ir.Shape([2, 3, 4]))
    fc = ir.Value(name="fc", type=ir.TensorType(ir.DataType.BOOL), shape=ir.Shape([]))
    f0 = ir.Node("", "Relu", [fx], num_outputs=1, name="f_relu")
    f0.outputs[0].name, f0.outputs[0].type, f0.outputs[0].shape = "ft0", F, ir.Shape([2, 3, 4])
    ft = ir.Node("", "Neg", [f0.outputs[0]], num_outputs=1, name="f_then_neg")
    ft.outputs[0].name, ft.outputs[0].type, ft.outputs[0].shape = "ft1", F, ir.Shape([2, 3, 4])
    fe = ir.Node("", "Abs", [fx], num_outputs=1, name="f_else_abs")
    fe.outputs[0].name, fe.outputs[0].type, fe.outputs[0].shape = "ft2", F, ir.Shape([2, 3, 4])
    fif = ir.Node("", "If", [fc], [ir.AttrGraph("then_branch", ir.Graph([], [ft.outputs[0]], nodes=[ft], name="f_then")),
                                    ir.AttrGraph("else_branch", ir.Graph([], [fe.outputs[0]], nodes=[fe], name="f_else"))], num_outputs=1, name="f_if")
    fif.outputs[0].name = "fy"
    fgraph = ir.Graph([fx, fc], [fif.outputs[0]], nodes=[f0, fif], name="fn_body", opset_imports={"": 20})
    fn = ir.Function("local", "fn", graph=fgraph, attributes=[])
    model.functions[fn.identifier()] = fn
    return model


class State:
    def __init__(self, irv, shadow=False, deep=False):
        self.model = build(irv, shadow, deep)
        self.model.add_device_configuration("cfg0", num_devices=2, device_names=("d0", "d1"))
        self.model.add_device_configuration("cfg1", num_devices=3)
        self.fails = []
        self.annotated = False
        self.affected = False
        self.n_names = 0
        self.shadowing = bool(shadow)

    def nodes(self):
        # incl. the nodes inside the If branches and the nodes of function bodies (at any depth)
        return list(self.model.graph.all_nodes()) + [n for f in self.model.functions.values() for n in f.all_nodes()]

    def root_of(self, node):
        """The top-level graph (main graph or a function body) below which `node` lives."""
        for f in self.model.functions.values():
            if any(node is n for n in f.all_nodes()):
                return f.graph
        return self.model.graph

    def fail(self, bucket, msg):
        if len(self.fails) < 3:
            self.fails.append((bucket, msg))


def io_of(node):
    return [v for v in list(node.inputs) + list(node.outputs) if v is not None]


def check_state(st, tag):
    import onnx_ir as ir
    from onnx_ir import _multi_device

    m = st.model
    regs = list(m.device_configurations)
    all_nodes = list(m.graph.all_nodes()) + [n for f in m.functions.values() for n in f.all_nodes()]
    for n in all_nodes:
        ios = io_of(n)
        for dc in n.device_configurations or ():
            if dc.configuration is None or not any(dc.configuration is r for r in regs):
                st.fail("dangling-configuration", f"after {tag}: node {n.name} references configuration {getattr(dc.configuration, 'name', None)!r} which is not (by identity) registered on its model")
            for spec in dc.sharding_specs:
                if spec.value is None or not any(spec.value is v for v in ios):
                    st.fail("dangling-sharding-value", f"after {tag}: node {n.name} has a sharding spec for {getattr(spec.value, 'name', None)!r} which is not one of its current inputs/outputs")
    try:
        errs = _multi_device._check_device_configurations(m)
    except Exception as e:
        errs = [f"checker raised {type(e).__name__}: {e}"]
    if errs:
        st.fail("library-checker-reports", f"after {tag}: {errs[:2]}")
    # serialized references use the current names
    try:
        p = ir.to_proto(m)
    except Exception as e:
        st.fail(f"to_proto-raised/{type(e).__name__}", f"after {tag}: to_proto raised {type(e).__name__}: {e}"[:300])
        return
    pairs = list(_node_pairs(m.graph, p.graph))
    for f_, fp_ in zip(m.functions.values(), p.functions):
        pairs.extend(_node_pairs(f_, fp_))
    for n, np_ in pairs:
        dcs = list(n.device_configurations or ())
        if len(dcs) != len(np_.device_configurations):
            st.fail("serialized-configuration-count", f"after {tag}: node {n.name} has {len(dcs)} configurations, proto has {len(np_.device_configurations)}")
            continue
        for dc, dp in zip(dcs, np_.device_configurations):
            if dp.configuration_id != (dc.configuration.name if dc.configuration is not None else ""):
                st.fail("serialized-configuration-id", f"after {tag}: proto configuration_id {dp.configuration_id!r} != {dc.configuration.name!r}")
            names = [s.value.name for s in dc.sharding_specs if s.value is not None]
            if [s.tensor_name for s in dp.sharding_spec] != names:
                st.fail("serialized-tensor-name", f"after {tag}: proto tensor names {[s.tensor_name for s in dp.sharding_spec]} != current names {names}")


def _node_pairs(graph, graph_proto):
    """(IR node, NodeProto) pairs of a graph and of the graphs nested in it, in order."""
    import onnx_ir as ir

    for n, np_ in zip(graph, graph_proto.node):
        yield n, np_
        for name, attr in n.attributes.items():
            if attr.is_ref():
                continue
            ap = [x for x in np_.attribute if x.name == name]
            if not ap:
                continue
            if attr.type == ir.AttributeType.GRAPH:
                yield from _node_pairs(attr.value, ap[0].g)
            elif attr.type == ir.AttributeType.GRAPHS:
                for sg, sp in zip(attr.value, ap[0].graphs):
                    yield from _node_pairs(sg, sp)


def _inner_defined(m):
    """Values defined inside nested graphs of the main graph (node outputs, inputs, initializers)."""
    out = []
    for n in m.graph.all_nodes():
        if n.graph is not m.graph:
            out.extend(n.outputs)
    return out


def _unshadowed(m, pool):
    """Outer values a nested node can be given without ambiguity: their name is not defined again in a nested graph."""
    inner_names = {v.name for v in _inner_defined(m)}
    return [x for x in pool if x.name not in inner_names]


def _shadow_candidates(m, n, v):
    """Names of main-graph values that the nested graph defining `v` (and everything nested in it) never uses."""
    g = n.graph
    if g is None or g is m.graph or not any(v is o for o in n.outputs):
        return []
    if not any(n is x for x in m.graph.all_nodes()):
        return []  # (a node of a function body: another top-level scope)
    used = set()
    for nn in m.graph.all_nodes():
        if nn.graph is not m.graph:  # any nested node: keep it simple and exclude what any nested graph captures
            used.update(id(x) for x in nn.inputs if x is not None)
    outer = list(m.graph.inputs) + [o for nn in m.graph for o in nn.outputs] + list(m.graph.initializers.values())
    inner_names = {x.name for x in _inner_defined(m)}
    names = []
    for x in outer:
        if id(x) in used or not x.name or x.name in inner_names or x.name in names:
            continue
        # an outer graph output keeps its meaning; its name may still be shadowed inside
        names.append(x.name)
    return names


def run_op(st, op):
    import onnx_ir as ir

    k, a, b, c, d = op
    m = st.model
    nodes = st.nodes()
    if not nodes:
        return "noop"
    n = nodes[a % len(nodes)]
    cfgs = list(m.device_configurations)
    ios = io_of(n)
    tag = None

    def rank_of(v):
        return len(v.shape) if v.shape is not None else None

    if k == 0:  # add configuration
        name = f"cfg{b % 3}"
        ndev = 1 + c % 4
        try:
            m.add_device_configuration(name, num_devices=ndev, device_names=[f"d{i}" for i in range(ndev)] if d % 2 else ())
        except ValueError:
            pass
        return f"add_device_configuration({name})"
    if k in (1, 2) and cfgs and ios:  # valid shard
        cfg = cfgs[b % len(cfgs)]
        v = ios[c % len(ios)]
        r = rank_of(v)
        if r == 0:
            return "noop"  # a scalar has no axis to shard
        axis = (d % (2 * r)) - r if r else d % 3
        # already sharded axes (normalised) for this value/configuration
        taken = set()
        stage_now = None
        for dc in n.device_configurations or ():
            if dc.configuration is cfg:
                stage_now = dc.pipeline_stage
                for s in dc.sharding_specs:
                    if s.value is v:
                        for sd in s.sharded_dims:
                            taken.add(sd.axis + r if (r and sd.axis < 0) else sd.axis)
        norm = axis + r if (r and axis < 0) else axis
        if norm in taken or (r is None and any(True for _ in taken)):
            return "noop"
        stage = None if (a + d) % 3 else (stage_now if stage_now is not None else d % 3)
        devs = list(range(1 + (b + d) % cfg.num_devices))
        before = n.device_configurations
        others_before = [dc for dc in before or () if dc.configuration is not cfg]
        try:
            n.shard(v, configuration=cfg, axis=axis, num_shards=1 + d % 3, device_indices=devs, pipeline_stage=stage)
            st.annotated = True
        except Exception as e:
            st.fail(f"valid-shard-rejected/{type(e).__name__}", f"shard({v.name}, axis={axis}, rank={r}, stage={stage}) raised {type(e).__name__}: {e}"[:300])
            return f"shard({n.name},{v.name},axis={axis})"
        # what an accepted request must have recorded (documented behaviour of Node.shard)
        mine = [dc for dc in n.device_configurations or () if dc.configuration is cfg]
        want_stage = stage if stage is not None else stage_now
        if len(mine) != 1:
            st.fail("shard-not-recorded/configuration-entries", f"after shard() node {n.name} has {len(mine)} entries for configuration {cfg.name}")
        else:
            if mine[0].pipeline_stage != want_stage:
                st.fail("shard-not-recorded/stage", f"shard(..., pipeline_stage={stage}) with previous stage {stage_now}: node reports stage {mine[0].pipeline_stage}")
            specs = [sp for sp in mine[0].sharding_specs if sp.value is v]
            if len(specs) != 1:
                st.fail("shard-not-recorded/spec-entries", f"after shard() there are {len(specs)} specs for {v.name}")
            else:
                axes = {}
                for sd in specs[0].sharded_dims:
                    axes[sd.axis + r if (r and sd.axis < 0) else sd.axis] = [x.num_shards for x in sd.simple_shardings]
                if axes.get(norm) != [1 + d % 3] or not taken <= set(axes) or len(axes) != len(taken) + 1:
                    st.fail("shard-not-recorded/axes", f"axes recorded {axes}, expected previous {sorted(taken)} plus {norm}:{1 + d % 3}")
                if not set(devs) <= set(specs[0].device):
                    st.fail("shard-not-recorded/devices", f"devices {specs[0].device} do not include {devs}")
        if [dc for dc in n.device_configurations or () if dc.configuration is not cfg] != others_before:
            st.fail("shard-changed-other-configuration", f"shard() for {cfg.name} changed the node's entries of other configurations")
        return f"shard({n.name},{v.name},axis={axis})"
    if k == 3 and cfgs and ios:  # invalid shard requests: must raise, no effect
        cfg = cfgs[b % len(cfgs)]
        v = ios[c % len(ios)]
        r = rank_of(v)
        kind = d % 6
        kwargs = dict(configuration=cfg, axis=0, num_shards=2)
        target = v
        if kind == 0:
            if r is None:
                return "noop"
            kwargs["axis"] = r + d % 2 if d % 4 < 2 else -r - 1
        elif kind == 1:
            kwargs["num_shards"] = [0, -1][d % 2]
        elif kind == 2:
            kwargs["pipeline_stage"] = -1 - d % 2
        elif kind == 3:
            others = [x for nn in nodes for x in io_of(nn) if not any(x is y for y in ios)]
            if not others:
                return "noop"
            target = others[d % len(others)]
        elif kind == 4:  # repeated axis modulo rank
            ax = None
            for dc in n.device_configurations or ():
                if dc.configuration is cfg:
                    for s in dc.sharding_specs:
                        if s.value is v and s.sharded_dims:
                            ax = s.sharded_dims[0].axis
            if ax is None:
                return "noop"
            if r is not None:
                ax = ax - r if ax >= 0 else ax + r
            kwargs["axis"] = ax
        else:  # conflicting stage
            cur = None
            for dc in n.device_configurations or ():
                if dc.configuration is cfg and dc.pipeline_stage is not None:
                    cur = dc.pipeline_stage
            if cur is None:
                return "noop"
            kwargs["pipeline_stage"] = [x for x in range(0, 4) if x != cur][(d // 6) % 3]  # any other stage, 0 included
            # use an axis that is free so that only the stage is wrong
            kwargs["axis"] = 0
        before = n.device_configurations
        names = ["axis-out-of-range", "num_shards<1", "negative-stage", "value-not-on-node", "axis-repeated", "conflicting-stage"]
        try:
            n.shard(target, **kwargs)
            if kind == 5 and r is not None:
                # axis 0 may legitimately have been taken -> then another error is raised; reaching here means accepted
                pass
            st.fail(f"invalid-shard-accepted/{names[kind]}", f"shard({target.name}, {kwargs}) on node {n.name} (rank {r}) was accepted")
        except ValueError:
            if n.device_configurations is not before:
                st.fail(f"invalid-shard-changed-state/{names[kind]}", f"rejected shard({target.name}, {kwargs}) replaced node.device_configurations")
        except Exception as e:
            st.fail(f"invalid-shard-wrong-exception/{type(e).__name__}", f"shard raised {type(e).__name__}: {e}"[:200])
        return f"invalid_shard[{names[kind]}]"
    if k == 4 and cfgs:
        cfg = cfgs[b % len(cfgs)]
        if c % 5 == 0:
            before = n.device_configurations
            try:
                n.set_pipeline_stage(cfg, -1)
                st.fail("invalid-stage-accepted", "set_pipeline_stage(-1) accepted")
            except ValueError:
                if n.device_configurations is not before:
                    st.fail("invalid-stage-changed-state", "rejected set_pipeline_stage changed the node")
        else:
            specs_before = [(dc.configuration, dc.sharding_specs) for dc in n.device_configurations or ()]
            n.set_pipeline_stage(cfg, c % 4)
            st.annotated = True
            mine = [dc for dc in n.device_configurations or () if dc.configuration is cfg]
            if len(mine) != 1 or mine[0].pipeline_stage != c % 4:
                st.fail("stage-not-recorded", f"set_pipeline_stage({cfg.name}, {c % 4}) left {[dc.pipeline_stage for dc in mine]}")
            after = [(dc.configuration, dc.sharding_specs) for dc in n.device_configurations or () if any(dc.configuration is x for x, _ in specs_before)]
            if [(id(x), y) for x, y in after] != [(id(x), y) for x, y in specs_before]:
                st.fail("stage-changed-sharding", f"set_pipeline_stage changed the sharding specs of node {n.name}")
        return f"set_pipeline_stage({n.name})"
    annotated_node = bool(n.device_configurations)
    if k == 5 and ios:  # rename a value
        v = ios[b % len(ios)]
        if not v.is_initializer():
            shadow = _shadow_candidates(m, n, v) if d % 3 == 0 else []
            if shadow:
                # legal shadowing: a value defined inside a nested graph takes the name of an outer value that graph never uses
                v.name = shadow[c % len(shadow)]
                st.shadowing = True
            else:
                st.n_names += 1
                v.name = f"renamed{st.n_names}"
            st.affected = st.affected or annotated_node
        return f"rename({v.name})"
    if k == 6 and n.inputs:  # replace input
        i = b % len(n.inputs)
        old = n.inputs[i]
        root = st.root_of(n)
        pool = [x for nn in root for x in nn.outputs if nn is not n] + list(root.inputs)  # values of the top-level graph: visible everywhere below it
        if n.graph is not root:
            pool = _unshadowed(m, pool) if root is m.graph else pool
        new = pool[c % len(pool)] if (pool and d % 4) else None
        n.replace_input_with(i, new)
        st.affected = st.affected or annotated_node
        if old is not None and not any(old is x for x in io_of(n)) and n.sharding_of(old) != ():
            st.fail("sharding-kept-after-value-left/replace_input_with", f"{old.name} left node {n.name} but sharding_of still returns specs")
        return f"replace_input_with({n.name},{i})"
    if k == 7:
        old = list(n.inputs)
        n.resize_inputs(b % 4)
        st.affected = st.affected or annotated_node
        for v in old:
            if v is not None and not any(v is x for x in io_of(n)) and n.sharding_of(v) != ():
                st.fail("sharding-kept-after-value-left/resize_inputs", f"{v.name} left node {n.name} but sharding_of still returns specs")
        return f"resize_inputs({n.name},{b % 4})"
    if k == 8:
        old = list(n.outputs)
        if st.root_of(n) is not m.graph and any(o.is_graph_output() for o in old):
            return "noop"  # a function whose declared output is no longer produced cannot be written as a FunctionProto
        try:
            n.resize_outputs(b % 4)
        except ValueError:
            return "resize_outputs rejected"
        st.affected = st.affected or annotated_node
        for v in old:
            if not any(v is x for x in io_of(n)) and n.sharding_of(v) != ():
                st.fail("sharding-kept-after-value-left/resize_outputs", f"{v.name} left node {n.name} but sharding_of still returns specs")
        for j, o in enumerate(n.outputs):
            if not o.name:
                st.n_names += 1
                o.name = f"out{st.n_names}"
        return f"resize_outputs({n.name},{b % 4})"
    if k == 9 and n.outputs:  # replace all uses
        v = n.outputs[b % len(n.outputs)]
        root = st.root_of(n)
        pool = [x for nn in root for x in nn.outputs if x is not v] + list(root.inputs)
        users = [u for u, _ in v.uses()]
        if root is m.graph and any(u.graph is not m.graph for u in users):
            pool = _unshadowed(m, pool)
        if not pool:
            return "noop"
        r = pool[c % len(pool)]
        try:
            v.replace_all_uses_with(r, replace_graph_outputs=bool(d % 2))
        except ValueError:
            return "rauw rejected"
        st.affected = st.affected or any(u.device_configurations for u in users)
        for u in users:
            if not any(v is x for x in io_of(u)) and u.sharding_of(v) != ():
                st.fail("sharding-kept-after-value-left/replace_all_uses_with", f"{v.name} left node {u.name} but sharding_of still returns specs")
        return f"replace_all_uses_with({v.name}->{r.name})"
    if k == 10:
        try:
            n.graph.remove(n, safe=True)
            st.affected = st.affected or annotated_node
        except ValueError:
            pass
        return f"remove({n.name})"
    if k == 11:
        try:
            st.model = m.clone(deep_copy=True) if b % 3 == 0 else m.clone()
        except Exception:
            return "noop"  # the cloner rejects unsorted graphs / outputs without definition (documented assumption)
        st.affected = st.affected or st.annotated
        return "Model.clone"
    if k == 12:
        try:
            g2 = m.graph.clone()
        except Exception:
            return "noop"
        st.model = ir.Model(g2, ir_version=m.ir_version, device_configurations=m.device_configurations)
        st.affected = st.affected or st.annotated
        return "Graph.clone"
    if k == 13 and cfgs:
        cfg = cfgs[b % len(cfgs)]
        m.remove_device_configuration(cfg.name if c % 2 else cfg, cascade=True)
        st.affected = st.affected or st.annotated
        return f"remove_device_configuration({cfg.name}, cascade)"
    if k == 14:
        try:
            st.model = ir.from_proto(ir.to_proto(m))
        except Exception as e:
            st.fail(f"roundtrip-raised/{type(e).__name__}", f"to_proto/from_proto raised {type(e).__name__}: {e}"[:300])
        st.affected = st.affected or st.annotated
        return "roundtrip"
    if k == 15 and len(nodes) >= 1:  # add a fresh node consuming existing values (gives later ops more room)
        pool = [x for nn in m.graph for x in nn.outputs] + list(m.graph.inputs)
        nn = ir.Node("", "Add", [pool[b % len(pool)], pool[c % len(pool)]], num_outputs=1)
        m.graph.append(nn)
        return "append node"
    if k == 16 and (d % 3 == 0 or not any(nn.op_identifier() in m.functions for nn in m.graph)) and m.functions:
        # a call of the model-local function from the main graph
        fid = next(iter(m.functions))
        floats = [x for nn in m.graph for x in nn.outputs if x.shape is not None and len(x.shape) == 3] + [x for x in m.graph.inputs if x.name == "a"]
        conds = [x for x in m.graph.inputs if x.name == "cond"]
        if floats and conds and len(m.functions[fid].inputs) == 2:
            st.n_names += 1
            call = ir.Node(fid[0], fid[1], [floats[b % len(floats)], conds[0]], num_outputs=1, name=f"call{st.n_names}")
            call.outputs[0].name = f"called{st.n_names}"
            m.graph.append(call)
            return "append call of fn"
        return "noop"
    if k == 17 and m.functions and any(nn.op_identifier() in m.functions for nn in m.graph.all_nodes()):
        # function inlining clones the (possibly annotated) body nodes once per call site: a copy is inlined, so that an inliner
        # rejecting an edited body leaves the history untouched
        from onnx_ir.passes.common import InlinePass

        try:
            m2 = m.clone()
            InlinePass()(m2)
        except Exception:
            return "noop"
        st.model = m2
        st.affected = st.affected or st.annotated
        return "InlinePass"
    return "noop"


def execute(case):
    try:
        st = State(case["irv"], bool(case.get("shadow")), bool(case.get("deep")))
        for i, op in enumerate(case["ops"]):
            if not (isinstance(op, list) and len(op) == 5):
                return dict(failures=[], nontrivial=False, classes=["malformed"])
            tag = run_op(st, op)
            if tag != "noop":
                check_state(st, f"op#{i} {tag}")
            if st.fails:
                break
    except (KeyError, TypeError, IndexError) as e:
        if "irv" not in case or "ops" not in case:
            return dict(failures=[], nontrivial=False, classes=["malformed"])
        raise
    classes = []
    if st.annotated:
        classes.append("annotated")
    if st.affected:
        classes.append("annotation_then_edit")
    if st.shadowing:
        classes.append("shadowed_name")
    if case.get("deep"):
        classes.append("control_flow_nested_twice")
    if any(isinstance(o, list) and o and o[0] == 17 for o in case["ops"]) and not st.model.functions:
        classes.append("function_inlined")
    seen, out = set(), []
    for b_, m in st.fails:
        if b_ not in seen:
            seen.add(b_)
            out.append((b_, m))
    return dict(failures=out, nontrivial=st.annotated and st.affected, classes=classes)

"""C12 - topological sort is correct across scopes, stable, deterministic, atomic."""

from __future__ import annotations

ID = "C12"
LEVEL = "exploration"
TECHNIQUE = (
    "property-based testing with a validity-predicate oracle: generated DAGs and cyclic graphs with nested "
    "subgraphs and captures, sorted by Graph.sort / Function.sort / TopologicalSortPass; order predicate, "
    "stability, determinism across two structurally identical builds and atomicity on cycles checked against "
    "an independent dependency computation (DFS)"
)
LEVEL_TEXT = (
    "Generated exploration of graph shapes (1-12 nodes, up to 3 nesting levels, GRAPH and GRAPHS attributes, "
    "multi-output nodes, None/repeated inputs, captures from any enclosing graph incl. producers placed after "
    "the control-flow node, arbitrary initial permutations, back edges). Many valid orders exist, so the oracle "
    "is a predicate over the output, not one expected order."
)
TRUSTED = "harness dependency computation (independent DFS, self-tested)"
RULE = (
    "case = node records [graph, #subgraphs, attr kind, #outputs, input refs] + permutation keys + entry point + options "
    "(a nested graph object held twice, members without names, moves of nodes inside their graph before the sort, GRAPHS "
    "attributes built from generators, graph-less consumers, pass-through bodies). "
    "Input refs are decoded modulo the set of producers visible from the node's graph (its own graph and every "
    "enclosing graph), in any position, so forward references, captures and cycles all occur. Non-trivial = "
    ">=4 nodes and (a nested graph with a capture, or an initial order violating the predicate, or a cycle). "
    "distinct = distinct case JSON."
)
ASSUMPTIONS = [
    "values are only referenced from the graph that defines them or from graphs nested in it (ONNX scoping)",
    "holds on the cases explored only",
]
BUDGET = {"quick": (16, 2500), "thorough": (16, 25000)}


def strategy(tier, phase):
    from hypothesis import strategies as st

    ref = st.one_of(st.just([-1, 0]), st.just([-2, 0]), st.tuples(st.integers(0, 30), st.integers(0, 1)).map(list),
                    st.tuples(st.integers(0, 30), st.integers(0, 1)).map(list))
    node = st.tuples(
        st.integers(0, 6),  # graph index (mod #graphs so far)
        st.sampled_from([0, 0, 0, 1, 1, 2]),  # number of subgraphs
        st.integers(0, 1),  # 0: separate GRAPH attrs, 1: one GRAPHS attr
        st.integers(1, 2),  # outputs
        st.lists(ref, min_size=0, max_size=3),
    ).map(list)
    return st.fixed_dictionaries(
        {
            "nodes": st.lists(node, min_size=1, max_size=12),
            "perm": st.lists(st.integers(0, 9), min_size=1, max_size=12),
            "entry": st.integers(0, 2),
            "dag": st.sampled_from([True, True, False]),
            "passthrough": st.sampled_from([0, 0, 1, 2, 5]),
            # consumers that are in no graph (a node removed with its inputs still attached, or built and never
            # inserted): they add uses to values without being part of what is sorted
            # shared: a nested graph object is held a second time by the same node (another GRAPH attribute, or listed twice in
            # its GRAPHS attribute); unnamed: some nodes / node outputs have lost their names after joining their graph
            # moves: before the sort, nodes are handed to their own graph again (insert_after / insert_before / Node.append at
            # a generated anchor of the same graph - also the place where they already are); the order after the moves is the
            # "previous order" the statement speaks of.  attr_spelling: GRAPHS attributes built from a list / tuple / generator
            "moves": st.lists(st.tuples(st.integers(0, 30), st.integers(0, 30), st.integers(0, 3)).map(list), max_size=3),
            "attr_spelling": st.integers(0, 3),
            "shared": st.sampled_from([0, 0, 0, 1, 2, 3]),
            "unnamed": st.sampled_from([0, 0, 0, 1, 2, 5]),
            "orphans": st.one_of(st.just([]), st.lists(st.tuples(st.integers(0, 30), st.integers(0, 1)).map(list), min_size=1, max_size=4)),
        }
    )


class Malformed(Exception):
    pass


ORPHANS = []  # keeps the graph-less consumers of recent cases alive


def build(case):
    """Returns (model, root_graph, graphs, nodes, labels)."""
    import onnx_ir as ir

    recs = case["nodes"]
    if not recs:
        raise Malformed()
    # pass 1: decide graph topology
    graph_parent_node = [None]  # graph idx -> node idx that holds it
    node_graph = []
    node_children = []
    for i, rec in enumerate(recs):
        g, nsub, kind, nout, ins = rec
        gi = g % len(graph_parent_node)
        # limit nesting depth to 3 levels below root
        depth = 0
        cur = gi
        while graph_parent_node[cur] is not None:
            depth += 1
            cur = node_graph[graph_parent_node[cur]]
        if depth >= 3:
            nsub = 0
        node_graph.append(gi)
        kids = []
        for _ in range(nsub):
            graph_parent_node.append(i)
            kids.append(len(graph_parent_node) - 1)
        node_children.append(kids)
    ngraphs = len(graph_parent_node)
    ginputs = [ir.Value(name=f"x{g}") for g in range(ngraphs)]
    graphs = [ir.Graph([ginputs[g]], [], nodes=[], name=f"g{g}", opset_imports={"": 20}) for g in range(ngraphs)]
    nodes = []
    for i, rec in enumerate(recs):
        g, nsub, kind, nout, ins = rec
        kids = node_children[i]
        attrs = []
        if kids:
            share = case.get("shared", 0) and (i + case.get("shared", 0)) % 2 == 0
            if kind == 1:
                bodies = [graphs[k] for k in kids] + ([graphs[kids[0]]] if share else [])
                sp = (case.get("attr_spelling", 0) + i) % 4
                attrs.append(ir.AttrGraphs("branches", bodies if sp == 0 else tuple(bodies) if sp == 1 else (b for b in bodies) if sp == 2 else iter(bodies)))
            else:
                for j, k in enumerate(kids):
                    attrs.append(ir.AttrGraph(f"body{j}", graphs[k]))
                if share:
                    attrs.append(ir.AttrGraph("body_again", graphs[kids[case.get("shared", 0) % len(kids)]]))
        n = ir.Node("", "Op", [None] * len(ins), attrs, num_outputs=nout, name=f"n{i}")
        for j, o in enumerate(n.outputs):
            o.name = f"n{i}_o{j}"
        nodes.append(n)
    # initial order per graph from permutation keys
    perm = case["perm"] or [0]
    for g in range(ngraphs):
        members = [i for i in range(len(recs)) if node_graph[i] == g]
        members.sort(key=lambda i: (perm[i % len(perm)], i))
        graphs[g].extend([nodes[i] for i in members])
    # ancestors
    def ancestors(g):
        out = [g]
        while graph_parent_node[g] is not None:
            g = node_graph[graph_parent_node[g]]
            out.append(g)
        return out

    # pass 2: wire inputs
    for i, rec in enumerate(recs):
        ins = rec[4]
        vis_graphs = ancestors(node_graph[i])
        visible = [j for j in range(len(recs)) if node_graph[j] in vis_graphs]
        for slot, (r, oi) in enumerate(ins):
            if r == -1:
                continue
            if r == -2:
                nodes[i].replace_input_with(slot, ginputs[vis_graphs[oi % len(vis_graphs)]])
                continue
            if case.get("dag"):
                # keep the dependency relation acyclic: a producer must have been created before the
                # node of its own graph that (transitively) contains the consumer
                def rep(i_, gj):
                    cur = i_
                    while node_graph[cur] != gj:
                        cur = graph_parent_node[node_graph[cur]]
                    return cur

                cands = [j for j in visible if j < rep(i, node_graph[j])]
                if not cands:
                    continue
                j = cands[r % len(cands)]
            else:
                j = visible[r % len(visible)]
            outs = nodes[j].outputs
            nodes[i].replace_input_with(slot, outs[oi % len(outs)])
    # some graph outputs
    for g in range(ngraphs):
        lst = list(graphs[g])
        if lst:
            graphs[g].outputs.append(lst[-1].outputs[0])
        elif graph_parent_node[g] is not None and case.get("passthrough"):
            # a nested graph without nodes that hands an outer value through as its output (accepted by the API): the value
            # is then listed by a graph that contributes nothing to the sort, while its producer and consumers do
            holder = graph_parent_node[g]
            vis = ancestors(node_graph[holder])
            cands = [j for j in range(len(recs)) if node_graph[j] in vis and j != holder and not nodes[j].outputs[0].is_graph_output()]
            if cands:
                try:
                    graphs[g].outputs.append(nodes[cands[case["passthrough"] % len(cands)]].outputs[0])
                except ValueError:
                    pass
    for a_, b_, how in case.get("moves") or []:
        n = nodes[a_ % len(nodes)]
        g = graphs[node_graph[a_ % len(nodes)]]
        members = list(g)
        anchor = members[b_ % len(members)]
        if anchor is n:
            continue
        if how == 0:
            g.insert_after(anchor, [n])
        elif how == 1:
            g.insert_before(anchor, [n])
        elif how == 2:
            anchor.append(n)
        else:
            anchor.prepend([n])
    if case.get("unnamed"):
        for i, n in enumerate(nodes):
            if (i + case["unnamed"]) % 3 == 0:
                n.name = None
            if (i + case["unnamed"]) % 4 == 0:
                n.outputs[-1].name = None
    for r, oi in case.get("orphans") or []:
        src = nodes[r % len(nodes)]
        ORPHANS.append(ir.Node("", "Orphan", [src.outputs[oi % len(src.outputs)]], num_outputs=1, name=f"orphan{len(ORPHANS)}"))
        if len(ORPHANS) > 64:
            del ORPHANS[:32]
    return graphs, nodes, node_graph


def nested_nodes(node):
    """All nodes nested (at any depth) inside the subgraphs of `node`."""
    import onnx_ir as ir

    out = []
    stack = []
    for a in node.attributes.values():
        if a.is_ref():
            continue
        if a.type == ir.AttributeType.GRAPH:
            stack.append(a.value)
        elif a.type == ir.AttributeType.GRAPHS:
            stack.extend(a.value)
    while stack:
        g = stack.pop()
        for m in g:
            out.append(m)
            for a in m.attributes.values():
                if a.is_ref():
                    continue
                if a.type == ir.AttributeType.GRAPH:
                    stack.append(a.value)
                elif a.type == ir.AttributeType.GRAPHS:
                    stack.extend(a.value)
    return out


def deps_in_graph(g):
    """node -> set of nodes of the same graph it depends on (through itself or nested nodes)."""
    members = list(g)
    ids = {id(n) for n in members}
    deps = {}
    for n in members:
        d = set()
        for m in [n] + nested_nodes(n):
            for v in m.inputs:
                if v is None:
                    continue
                p = v.producer()
                if p is not None and id(p) in ids:
                    d.add(id(p))
        deps[id(n)] = d
    return members, deps


def has_cycle(graphs):
    for g in graphs:
        members, deps = deps_in_graph(g)
        color = {}
        for n in members:
            if color.get(id(n)):
                continue
            stack = [(id(n), iter(deps[id(n)]))]
            color[id(n)] = 1
            while stack:
                u, it = stack[-1]
                nxt = next(it, None)
                if nxt is None:
                    color[u] = 2
                    stack.pop()
                    continue
                if color.get(nxt) == 1:
                    return True
                if not color.get(nxt):
                    color[nxt] = 1
                    stack.append((nxt, iter(deps[nxt])))
    return False


def order_violations(graphs):
    bad = []
    for g in graphs:
        members, deps = deps_in_graph(g)
        pos = {id(n): i for i, n in enumerate(members)}
        for n in members:
            for p in deps[id(n)]:
                if p == id(n) or pos[p] >= pos[id(n)]:
                    bad.append((g.name, n.name))
    return bad


def reachable_graphs(root, graphs):
    """graphs reachable from root through attributes (the ones sort(root) must handle)."""
    out = [root]
    for n in root:
        pass
    seen = {id(root)}
    stack = [root]
    import onnx_ir as ir

    while stack:
        g = stack.pop()
        for n in g:
            for a in n.attributes.values():
                subs = [a.value] if a.type == ir.AttributeType.GRAPH else (list(a.value) if a.type == ir.AttributeType.GRAPHS else [])
                for s in subs:
                    if id(s) not in seen:
                        seen.add(id(s))
                        out.append(s)
                        stack.append(s)
    return out


def top_level(graphs):
    nested = set()
    for g in graphs:
        for s_ in reachable_graphs(g, graphs)[1:]:
            nested.add(id(s_))
    return [g for g in graphs if id(g) not in nested]


def run_sort(entry, root, others=()):
    import onnx_ir as ir

    if entry % 3 == 0:
        root.sort()
    elif entry % 3 == 1:
        f = ir.Function("d", "f", graph=root, attributes=[])
        f.sort()
    else:
        from onnx_ir.passes.common import TopologicalSortPass

        # the other top-level graphs of the case become the bodies of model-local functions: the pass owes them the same
        fns = [ir.Function("local", f"f{i}", graph=g, attributes=[]) for i, g in enumerate(others)]
        model = ir.Model(root, ir_version=10, functions=fns)
        TopologicalSortPass()(model)


def execute(case):
    try:
        graphs, nodes, node_graph = build(case)
        graphs2, nodes2, _ = build(case)
    except (Malformed, KeyError, IndexError, TypeError, ValueError):
        return dict(failures=[], nontrivial=False, classes=["malformed"])
    root = graphs[0]
    scope = reachable_graphs(root, graphs)
    entry = case.get("entry", 0)
    others, others2 = [], []
    if entry % 3 == 2:
        # TopologicalSortPass also owes an order to the function bodies: a structural copy of the same case becomes the
        # body of a model-local function (and must end up in the same order as the main graph's copy)
        try:
            graphs3, _, _ = build(case)
            graphs4, _, _ = build(case)
        except (Malformed, KeyError, IndexError, TypeError, ValueError):
            return dict(failures=[], nontrivial=False, classes=["malformed"])
        for g in graphs3 + graphs4:
            g.name = "fn_" + g.name
        others, others2 = [graphs3[0]], [graphs4[0]]
        graphs = graphs + graphs3
        graphs2 = graphs2 + graphs4
        scope = scope + reachable_graphs(graphs3[0], graphs3)
    multi_root = bool(others)
    cyc = has_cycle(scope)
    pre_bad = order_violations(scope)
    label = {id(n): f"n{i}" for i, n in enumerate(nodes)}
    before = {g.name: [label.get(id(n), n.name) for n in g] for g in graphs}
    before_ids = {g.name: [id(n) for n in g] for g in graphs}
    names_before = [(n.name, [o.name for o in n.outputs]) for n in nodes]
    fails = []
    exc = None
    try:
        run_sort(entry, root, others)
    except Exception as e:
        exc = e
    after = {g.name: [label.get(id(n), n.name) for n in g] for g in graphs}
    after_ids = {g.name: [id(n) for n in g] for g in graphs}
    names_after = [(n.name, [o.name for o in n.outputs]) for n in nodes]
    ename = ["Graph.sort", "Function.sort", "TopologicalSortPass"][entry % 3]
    if cyc:
        if not isinstance(exc, ValueError):
            fails.append((f"cycle-not-rejected/{ename}", f"dependencies contain a cycle but sort {'returned' if exc is None else 'raised ' + type(exc).__name__}; before={before} after={after}"[:500]))
        if after_ids != before_ids and not multi_root:  # (the pass sorts main graph and functions one after the other)
            fails.append((f"cycle-order-changed/{ename}", f"cycle: order changed {before} -> {after}"[:500]))
    else:
        if exc is not None:
            fails.append((f"acyclic-raised/{ename}/{type(exc).__name__}", f"acyclic graph but sort raised {type(exc).__name__}: {exc}; order {before}"[:500]))
        else:
            for g in graphs:
                if sorted(after_ids[g.name]) != sorted(before_ids[g.name]):
                    fails.append((f"node-set-changed/{ename}", f"graph {g.name} node set changed {before[g.name]} -> {after[g.name]}"))
            bad = order_violations(scope)
            if bad:
                fails.append((f"order-predicate/{ename}", f"after sort, nodes {bad[:4]} precede a producer they depend on; before={before} after={after}"[:600]))
            if not pre_bad and any(after_ids[g.name] != before_ids[g.name] for g in scope):
                fails.append((f"not-stable/{ename}", f"already ordered graph changed: {before} -> {after}"[:500]))
            if not pre_bad and names_after != names_before:
                ch = [(a, b) for a, b in zip(names_before, names_after) if a != b][:3]
                fails.append((f"ordered-graph-not-left-as-it-was/names/{ename}", f"sorting an already ordered graph changed names: {ch}"[:400]))
            # untouched graphs (not reachable from root) must not change
            for g in graphs:
                if g not in scope and after_ids[g.name] != before_ids[g.name]:
                    fails.append((f"foreign-graph-changed/{ename}", f"graph {g.name} not reachable from root changed"))
            # determinism: second structurally identical build
            try:
                run_sort(entry, graphs2[0], others2)
                label2 = {id(n): f"n{i}" for i, n in enumerate(nodes2)}
                after2 = {g.name: [label2.get(id(n), n.name) for n in g] for g in graphs2}
                if after2 != after:
                    fails.append((f"nondeterministic/{ename}", f"two identical builds sorted differently: {after} vs {after2}"[:500]))
            except Exception as e:
                fails.append((f"nondeterministic-exc/{ename}", f"second build raised {type(e).__name__}"))
    has_capture = False
    for g in scope[1:]:
        for n in g:
            for v in n.inputs:
                if v is not None and v.producer() is not None and v.producer().graph is not g:
                    has_capture = True
    nontrivial = len(nodes) >= 4 and (has_capture or bool(pre_bad) or cyc)
    classes = [ename]
    if cyc:
        classes.append("cyclic")
    if has_capture:
        classes.append("nested_capture")
    if pre_bad and not cyc:
        classes.append("unsorted_dag")
    if not pre_bad and not cyc:
        classes.append("already_sorted")
    if len(scope) >= 3:
        classes.append(">=3 graphs")
    if multi_root:
        classes.append("pass_with_functions")
    if case.get("shared") and any(rec[1] > 0 and (i + case.get("shared", 0)) % 2 == 0 for i, rec in enumerate(case["nodes"])):
        classes.append("graph_object_held_twice")
    if case.get("unnamed"):
        classes.append("unnamed_nodes_or_values")
    if case.get("moves"):
        classes.append("nodes_moved_before_the_sort")
    return dict(failures=fails, nontrivial=nontrivial, classes=classes)


def selftest():
    import onnx_ir as ir

    a = ir.Value(name="a")
    n0 = ir.Node("", "A", [a], name="n0")
    n1 = ir.Node("", "B", [n0.outputs[0]], name="n1")
    g = ir.Graph([a], [n1.outputs[0]], nodes=[n1, n0], name="g")
    assert order_violations([g]) and not has_cycle([g])
    g.sort()
    assert not order_violations([g])
    n0.replace_input_with(0, n1.outputs[0])
    assert has_cycle([g])

"""C02 - ONNX proto -> IR -> proto is lossless for every supported proto."""

from __future__ import annotations

import os
import shutil
import tempfile

ID = "C02"
LEVEL = "exploration"
TECHNIQUE = (
    "property-based round-trip testing: tape-driven generator of well-formed ONNX protos over the supported "
    "feature set (built with the protobuf API only) plus the ONNX backend-test model corpus as seeds; oracle = "
    "canonical-form equality under exactly the documented normalisations, with a field-path differ"
)
LEVEL_TEXT = (
    "Generated exploration of proto shapes (all message kinds, IR versions 3-13) through every public entry point "
    "(from_proto/to_proto, deserialize_*/serialize_*, save/load, and every sub-message on its own). The oracle is "
    "a round trip compared field by field after an independently written canonicaliser."
)
TRUSTED = "vlib/protocanon.py (self-tested: single-field flips must be detected), protobuf, onnx (proto definitions only)"
RULE = (
    "case = integer tape decoded by vlib/protogen.py into a ModelProto (types nested <=3 incl. sparse/sequence/"
    "optional with shapes and denotations, tensors of every element type via raw or typed fields / string / "
    "external entries, all attribute kinds except sparse, reference attributes, overloads, '' inputs/outputs, "
    "nested graphs capturing outer values, unsorted node order, value_info subset + unreferenced, quantization "
    "annotations, functions, metadata on every carrier, device configurations for IR>=11) + entry point; or a model "
    "of the ONNX backend test corpus. Non-trivial = (>=3 nodes or nested graph/function) and >=1 feature outside the "
    "backend corpus (tensor/value/node metadata, overload, denotation, nested type, low-bit tensor, attribute doc, "
    "device configuration, quantization annotation, reference attribute, typed tensor field). distinct = tape JSON."
)
ASSUMPTIONS = [
    "sparse tensors/attributes, map types, training_info and sparse_initializer are outside the supported feature set",
    "names are unique across the whole model (SSA incl. nested scopes); attribute names unique per node",
    "float attributes hold non-NaN values; STRINGS attributes hold valid UTF-8 (STRING may hold any bytes)",
    "order of string-string maps and of quantization annotations (keyed by tensor name) is not information",
]
BUDGET = {"quick": (16, 1000), "thorough": (16, 12000)}
RARE = {"tensor_metadata", "value_metadata", "node_metadata", "overload", "function_overload", "dim_denotation",
        "type_denotation", "nested_type", "lowbit_tensor", "attr_doc", "device_configuration",
        "quantization_annotation", "ref_attr", "typed_tensor_field", "graph_metadata", "function_metadata"}
ENTRIES = ["from_proto/to_proto", "deserialize_model/serialize_model", "save/load", "sub-messages"]


def strategy(tier, phase):
    from hypothesis import strategies as st

    from vlib import protogen

    return st.fixed_dictionaries({"gen": st.sampled_from([2, 3, 4, 4]), "ctx": st.integers(0, 7), "tape": protogen.tape_strategy(400 if tier == "quick" else 900), "entry": st.integers(0, 3),
                                  "irv": st.sampled_from([0, 0, 10, 11, 13, 3, 8, 9])})


def _corpus_files():
    import onnx

    root = os.path.join(os.path.dirname(onnx.__file__), "backend", "test", "data")
    out = []
    for d, _, files in os.walk(root):
        if "model.onnx" in files:
            out.append(os.path.relpath(os.path.join(d, "model.onnx"), root))
    out.sort()
    extra_root = "/repo/testdata/e2e_models"
    if os.path.isdir(extra_root):
        for d, _, files in os.walk(extra_root):
            for f in files:
                if f.endswith(".onnx") or f.endswith(".textproto"):
                    pass
    return root, out


def _probe(model):
    """Read-only queries between deserialization and serialization: none of them may change what is serialized."""
    graphs = [model.graph] + [f.graph for f in model.functions.values()]
    seen = set()
    while graphs:
        g = graphs.pop()
        if id(g) in seen:
            continue
        seen.add(id(g))
        values = list(g.inputs) + list(g.initializers.values()) + list(g.outputs)
        for n in g:
            values += [v for v in n.outputs]
            for a in n.attributes.values():
                if not a.is_ref() and a.type.name == "GRAPH":
                    graphs.append(a.as_graph())
                elif not a.is_ref() and a.type.name == "GRAPHS":
                    graphs.extend(a.as_graphs())
            for q in (lambda: str(n), lambda: n.op_identifier(), lambda: n.predecessors(), lambda: n.successors()):
                try:
                    q()
                except Exception:
                    pass
        for v in values:
            sh = v.shape
            for q in (lambda: repr(v), lambda: v.uses(), lambda: v.consumers(), lambda: v.dtype, lambda: v.type,
                      lambda: sh.free_symbols(), lambda: sh.is_static(), lambda: sh.has_unknown_dim(), lambda: sh.evaluate({}),
                      lambda: sh.simplify(), lambda: str(sh), lambda: [d.free_symbols() for d in sh if hasattr(d, "free_symbols")],
                      lambda: sh.numpy(), lambda: v.is_graph_output(), lambda: v.is_initializer(), lambda: hash(sh)):
                try:
                    q()
                except Exception:  # what a query answers or rejects is not this property's matter
                    pass
    try:
        str(model)
    except Exception:
        pass


def _roundtrip_model(mp, entry, features, ctx=0):
    import contextlib

    import onnx

    import onnx_ir as ir
    from onnx_ir import serde

    if entry in (0, 1) and ctx >= 5:
        # 5: inside an active Journal; 6: read-only queries between the two halves; 7: both
        from onnx_ir.journaling import Journal

        with (Journal() if ctx in (5, 7) else contextlib.nullcontext()):
            m = serde.deserialize_model(mp) if entry == 1 else ir.from_proto(mp)
            if ctx in (6, 7):
                _probe(m)
            return serde.serialize_model(m) if entry == 1 else ir.to_proto(m)
    if entry == 1:
        return serde.serialize_model(serde.deserialize_model(mp))
    if entry == 2 and "external_tensor" not in features:
        d = tempfile.mkdtemp(prefix="verif_c02_")
        try:
            m = ir.from_proto(mp)
            p = os.path.join(d, "m.onnx")
            ir.save(m, p)
            m2 = ir.load(p)
            return ir.to_proto(m2)
        finally:
            shutil.rmtree(d, ignore_errors=True)
    return ir.to_proto(ir.from_proto(mp))


def _compare(orig, back, label, fails, _retry=False):
    from vlib import protocanon

    a = protocanon.canon(orig)
    b = protocanon.canon(back, original=orig)
    if protocanon.equal(a, b):
        return
    d = protocanon.first_diff(a, b)
    if d is None:
        fails.append((f"roundtrip/?", "canonical bytes differ but no field-level difference found"))
        return
    path, text = d
    if path.endswith("external_data#count"):
        lost = _external_keys(a) - _external_keys(b)
        gained = _external_keys(b) - _external_keys(a)
        path += ":lost=" + ",".join(sorted(lost)) + (":gained=" + ",".join(sorted(gained)) if gained else "")
    fails.append((f"roundtrip/{path}", f"[{label}] {text}"))
    if path.endswith("external_data#count:lost=checksum") and not _retry:
        # known finding: exclude it by construction (strip the checksum entries) and keep comparing
        stripped = type(orig)()
        stripped.CopyFrom(orig)
        _strip_checksums(stripped)
        _compare(stripped, back, label, fails, _retry=True)


def _strip_checksums(msg):
    import onnx

    if isinstance(msg, onnx.TensorProto):
        keep = [(e.key, e.value) for e in msg.external_data if e.key != "checksum"]
        if len(keep) != len(msg.external_data):
            del msg.external_data[:]
            for k, v in keep:
                msg.external_data.add(key=k, value=v)
    for f, v in msg.ListFields():
        if f.type != f.TYPE_MESSAGE:
            continue
        if hasattr(v, "DESCRIPTOR"):
            _strip_checksums(v)
        else:
            for sub in v:
                _strip_checksums(sub)


def _external_keys(msg):
    import onnx

    keys = set()

    def visit(m):
        if isinstance(m, onnx.TensorProto):
            keys.update(e.key for e in m.external_data)
        for f, v in m.ListFields():
            if f.type != f.TYPE_MESSAGE:
                continue
            if hasattr(v, "DESCRIPTOR"):
                visit(v)
            else:
                for sub in v:
                    visit(sub)

    visit(msg)
    return keys


def _sub_messages(mp, fails):
    """Round-trip every message kind on its own."""
    import onnx

    import onnx_ir as ir
    from onnx_ir import serde

    def rt(msg, label, fn=None):
        try:
            back = fn(msg) if fn else ir.to_proto(ir.from_proto(msg))
        except NotImplementedError:
            return
        except Exception as e:
            fails.append((f"raised/{label}/{type(e).__name__}", f"{label}: {type(e).__name__}: {e}"[:300]))
            return
        _compare(msg, back, label, fails)

    g = onnx.GraphProto()
    g.CopyFrom(mp.graph)
    for n in g.node:  # a stand-alone graph/node has no IR version: multi-device fields are gated on IR>=11
        del n.device_configurations[:]
    rt(g, "GraphProto")
    for f in mp.functions:
        rt(f, "FunctionProto")
    for n in list(g.node)[:6]:
        rt(n, "NodeProto")
        for a in n.attribute:
            rt(a, "AttributeProto")
    for t in mp.graph.initializer:
        rt(t, "TensorProto")
    for vi in list(mp.graph.input) + list(mp.graph.output) + list(mp.graph.value_info):
        rt(vi, "ValueInfoProto")
        if vi.HasField("type"):
            rt(vi.type, "TypeProto", lambda tp: _type_rt(tp))


def _type_rt(tp):
    import onnx

    import onnx_ir as ir
    from onnx_ir import serde

    ts = ir.from_proto(tp)
    out = onnx.TypeProto()
    if ts.type is not None:
        serde.serialize_type_into(out, ts.type)
    if ts.shape is not None:
        serde.serialize_shape_into(out, ts.shape)
    return out


def execute(case):
    from vlib import protogen

    fails = []
    ctx_class = None
    if "corpus" in case:
        import onnx

        root, _ = _corpus_files()
        mp = onnx.load(os.path.join(root, case["corpus"]), load_external_data=False)
        features = set()
        entry = case.get("entry", 0) % 2
        label = ENTRIES[entry] + "/corpus"
    else:
        try:
            mp, features = protogen.build_model(case["tape"], case.get("irv") or None, case.get("gen", 1))
        except (KeyError, TypeError):
            return dict(failures=[], nontrivial=False, classes=["malformed"])
        entry = case.get("entry", 0) % 4
        label = ENTRIES[entry]
    try:
        if entry == 3:
            _sub_messages(mp, fails)
        else:
            ctx = case.get("ctx", 0)
            back = _roundtrip_model(mp, entry, features, ctx)
            if entry in (0, 1) and ctx >= 5:
                label += ["/in-journal", "/queried", "/in-journal+queried"][ctx - 5]
                ctx_class = ["inside_active_journal", "read_only_queries_between", "inside_active_journal+queries"][ctx - 5]
            _compare(mp, back, label, fails)
    except Exception as e:
        import traceback

        tb = traceback.extract_tb(e.__traceback__)
        where = [f"{os.path.basename(f.filename)}:{f.name}" for f in tb if "onnx_ir" in f.filename][-1:] or ["?"]
        fails.append((f"raised/{label}/{type(e).__name__}@{where[0]}", f"{label}: {type(e).__name__}: {str(e)[:300]}"))
    n_nodes = len(mp.graph.node)
    nested = bool(features & {"nested_graph", "function"})
    nontrivial = (n_nodes >= 3 or nested) and bool(features & RARE)
    seen, out = set(), []
    for b, m in fails:
        if b not in seen:
            seen.add(b)
            out.append((b, m))
    classes = sorted(features & (RARE | {"nested_graph", "function", "external_tensor", "unsorted_nodes", "sparse_tensor_type",
                                       "sequence_type", "optional_type", "string_tensor", "initializer_for_input"})) + [f"ir{mp.ir_version}" if "corpus" not in case else "corpus"] + ([ctx_class] if ctx_class else [])
    return dict(failures=out, nontrivial=nontrivial, classes=classes)


def extra(tier, seed, shard, col):
    """Backend-test corpus as seeds: every model must round-trip (sampled in quick, all in thorough)."""
    root, files = _corpus_files()
    if not files:
        return
    stride = 1 if tier == "thorough" else 6
    n = 0
    for i, rel in enumerate(files):
        if i % 16 != shard or (i // 16) % stride != seed % stride:
            continue
        case = {"corpus": rel, "entry": i}
        try:
            col.record(case, execute(case))
            n += 1
        except Exception as e:
            col.errors.append(f"corpus {rel}: {type(e).__name__}: {e}")
    col.extra["corpus_models"] = n


def selftest():
    """The canonicaliser must distinguish protos that differ in any single (non-normalised) field."""
    import onnx

    from vlib import protocanon, protogen

    mp, _ = protogen.build_model([3, 1, 4, 1, 5, 9, 2, 6, 5, 3, 5, 8, 9, 7, 9, 3, 2, 3, 8, 4, 6, 2, 6, 4, 3] * 12, 11)
    base = protocanon.canon(mp)

    def differs(mut):
        m2 = onnx.ModelProto()
        m2.CopyFrom(mp)
        mut(m2)
        return not protocanon.equal(base, protocanon.canon(m2))

    assert mp.graph.node, "selftest model has no node"
    assert differs(lambda m: setattr(m.graph.node[0], "op_type", "Zzz"))
    assert differs(lambda m: setattr(m.graph.node[0], "overload", "zz"))
    assert differs(lambda m: setattr(m.graph.node[0], "doc_string", "zz"))
    assert differs(lambda m: m.graph.node[0].metadata_props.add(key="zz", value="1"))
    assert differs(lambda m: m.graph.node[0].input.append("zz"))
    assert differs(lambda m: setattr(m, "ir_version", 7))
    assert differs(lambda m: m.graph.input.add(name="zz"))
    assert differs(lambda m: m.graph.initializer.add(name="zz", data_type=1, dims=[1], raw_data=b"\0\0\0\0"))
    # and must NOT distinguish the documented normalisations
    def same(mut):
        return not differs(mut)

    assert same(lambda m: m.graph.node[0].output.append(""))
    assert same(lambda m: setattr(m.graph.node[0], "domain", "ai.onnx") if m.graph.node[0].domain == "" else None)
    assert same(lambda m: m.graph.value_info.add(name="nobody_uses_this"))
    m3 = onnx.ModelProto()
    m3.CopyFrom(mp)
    m3.opset_import.add(domain="zzz", version=1)
    a = protocanon.canon(m3)
    m4 = onnx.ModelProto()
    m4.CopyFrom(m3)
    ops = list(m4.opset_import)[::-1]
    del m4.opset_import[:]
    m4.opset_import.extend(ops)
    assert protocanon.equal(a, protocanon.canon(m4))

"""C13 - clones are faithful and fully independent of their originals."""

from __future__ import annotations

ID = "C13"
LEVEL = "exploration"
TECHNIQUE = (
    "property-based testing with differential and metamorphic oracles: generated models are cloned through every "
    "public clone entry point, the clone must serialize identically and share no graph/node/value/shape/type/"
    "metadata object; then a generated edit script is applied to one copy and a public-accessor snapshot of the "
    "other copy must not change (both directions); functionalized passes must leave their input unchanged"
)
LEVEL_TEXT = (
    "Generated exploration of models (from generated protos: nested subgraphs, captured and shared values, metadata "
    "everywhere, device annotations) x clone entry points x edit scripts (structural edits plus every public setter "
    "of values, shapes, types, metadata, attributes, opset imports)."
)
TRUSTED = "vlib/snapshot.py (content snapshot without identities), protobuf deterministic serialization"
RULE = (
    "case = proto tape + clone kind (Model.clone, Graph.clone with/without allow_outer_scope_values on the main graph "
    "or a nested graph, Function.clone, GraphView.clone, functionalize(pass)) + edit script + which copy is edited. "
    "Non-trivial = model has a nested graph or a value with >=2 uses, and the script contains >=1 setter on a "
    "value/shape/type/metadata object that exists in both copies. distinct = case JSON."
)
ASSUMPTIONS = [
    "tensors and non-graph Attr objects may be shared (statement); fields of a shared tensor object (its own name/doc string) are not part of the independence snapshot",
    "values of the intermediate-analysis store `meta` are shared unless deep_copy=True (documented); only the store itself must be a new object",
    "cloning a topologically unsorted graph may raise (documented assumption of the cloner)",
]
BUDGET = {"quick": (16, 1200), "thorough": (16, 12000)}
KINDS = ["Model.clone", "Graph.clone", "Graph.clone(allow_outer)", "Subgraph.clone", "Subgraph.clone(allow_outer)", "Function.clone",
         "GraphView.clone", "functionalize"]
N_SET = 16


def strategy(tier, phase):
    from hypothesis import strategies as st

    from vlib import protogen

    op = st.one_of(
        st.tuples(st.just("s"), st.integers(0, N_SET - 1), st.integers(0, 60), st.integers(0, 60)).map(list),
        st.tuples(st.just("s"), st.integers(0, N_SET - 1), st.integers(0, 60), st.integers(0, 60)).map(list),
        st.tuples(st.just("e"), st.integers(0, 13), st.integers(0, 60), st.integers(0, 60), st.integers(0, 60)).map(list),
    )
    return st.fixed_dictionaries({"gen": st.sampled_from([2, 3, 4, 4]), "tape": protogen.tape_strategy(300), "irv": st.sampled_from([0, 10, 11, 13]), "kind": st.integers(0, len(KINDS) - 1),
                                  "which": st.integers(0, 1), "deep": st.booleans(), "ops": st.lists(op, min_size=1, max_size=8),
                                  # edits made to the model BEFORE it is cloned (what a pass pipeline has done to it by then), e.g. a node
                                  # output that carries as const_value the very tensor object of a node attribute (constant propagation)
                                  "pre": st.lists(st.tuples(st.integers(0, 60), st.integers(0, 60)).map(list), max_size=3)})


def _all_graphs(model_or_graph):
    import onnx_ir as ir

    if isinstance(model_or_graph, ir.Model):
        roots = [model_or_graph.graph] + [f.graph for f in model_or_graph.functions.values()]
    else:
        roots = [model_or_graph]
    out, seen = [], set()
    for r in roots:
        for g in [r] + list(r.subgraphs()):
            if id(g) not in seen:
                seen.add(id(g))
                out.append(g)
    return out


def _values_of(graphs):
    vals, seen = [], set()
    for g in graphs:
        for v in list(g.inputs) + list(g.initializers.values()) + [o for n in g for o in n.outputs]:
            if id(v) not in seen:
                seen.add(id(v))
                vals.append(v)
    return vals


def _mask_attr_tensor_names(proto):
    """Deterministic bytes of a Model/Graph/Function proto with the own names of attribute tensors cleared."""
    import onnx

    m = type(proto)()
    m.CopyFrom(proto)

    def walk(nodes):
        for n in nodes:
            for a in n.attribute:
                if a.HasField("t"):
                    a.t.ClearField("name")
                for t in a.tensors:
                    t.ClearField("name")
                if a.HasField("g"):
                    walk(a.g.node)
                for sg in a.graphs:
                    walk(sg.node)

    if isinstance(m, onnx.ModelProto):
        walk(m.graph.node)
        for f in m.functions:
            walk(f.node)
    else:
        walk(m.node)
    return m.SerializeToString(deterministic=True)


def _mask_attr_tensor_names_bytes(data, like):
    import onnx

    import onnx_ir as ir

    cls = onnx.ModelProto if isinstance(like, ir.Model) else (onnx.FunctionProto if isinstance(like, ir.Function) else onnx.GraphProto)
    m = cls()
    m.ParseFromString(data)
    return _mask_attr_tensor_names(m)


def setter(graphs, op):
    """One public setter on an object of the given copy. Returns True if something shared-able was touched."""
    import numpy as np

    import onnx_ir as ir

    _, k, a, b = op
    vals = _values_of(graphs)
    nodes = [n for g in graphs for n in g]
    if not vals:
        return False
    v = vals[a % len(vals)]
    if k == 0:
        # (renaming an initializer renames its tensor object too, which a clone shares with its original by design:
        # the tensor's own name is masked in the snapshot below, the serialized form of the other copy must not change)
        v.name = f"c13_renamed_{b}_{a}"
        return True
    if k == 1:
        v.type = ir.TensorType(ir.DataType.INT8)
        return True
    if k == 2:
        v.dtype = [ir.DataType.INT16, ir.DataType.DOUBLE, ir.DataType.BOOL][b % 3]  # in-place on the type object when present
        return True
    if k == 3:
        v.shape = ir.Shape([b, "K"])
        return True
    if k == 4:
        if v.shape is not None and len(v.shape) > 0 and not v.shape.frozen:
            v.shape[b % len(v.shape)] = 7 + b
            return True
        return False
    if k == 5:
        if v.shape is not None and len(v.shape) > 0 and not v.shape.frozen:
            v.shape.set_denotation(b % len(v.shape), f"DEN{b}")
            return True
        return False
    if k == 6:
        v.const_value = ir.tensor([float(b)], name="c13_t") if b % 2 else None
        return True
    if k == 7:
        v.doc_string = f"doc{b}"
        return True
    if k == 8:
        v.metadata_props[f"c13k{b % 2}"] = f"v{b}"
        return True
    if k == 9:
        v.meta[f"c13m{b % 2}"] = b
        return True
    if k == 10 and nodes:
        n = nodes[a % len(nodes)]
        n.attributes[f"c13a{b % 2}"] = ir.AttrInt64(f"c13a{b % 2}", b)
        return True
    if k == 11 and nodes:
        n = nodes[a % len(nodes)]
        if n.attributes:
            n.attributes.pop(list(n.attributes)[b % len(n.attributes)])
        n.metadata_props["c13n"] = str(b)
        n.doc_string = f"ndoc{b}"
        return True
    if k == 12:
        g = graphs[a % len(graphs)]
        g.opset_imports[f"dom{b % 2}"] = b
        g.metadata_props["c13g"] = str(b)
        g.name = f"c13g{b}"
        g.doc_string = f"gdoc{b}"
        return True
    if k == 13 and nodes:
        n = nodes[a % len(nodes)]
        n.name = f"c13n{b}"
        n.op_type = f"Op{b % 3}"
        n.domain = ["", "x.y"][b % 2]
        n.overload = ["", "o"][b % 2]
        n.version = b
        n.meta["c13nm"] = b
        return True
    if k == 14 and v.type is not None and hasattr(v.type, "denotation"):
        try:
            v.type.denotation = f"D{b}"  # type objects expose their denotation
            return True
        except AttributeError:
            return False
    if k == 15:
        g = graphs[a % len(graphs)]
        g.meta["c13gm"] = b
        if g.initializers:
            iv = list(g.initializers.values())[b % len(g.initializers)]
            iv.metadata_props["c13i"] = str(b)
            iv.doc_string = f"idoc{b}"
        return True
    return False


def _ident_sets(graphs):
    """ids of objects that must not be shared between a clone and its original."""
    ids = {}
    for g in graphs:
        ids[id(g)] = f"graph {g.name}"
        ids[id(g.metadata_props)] = f"graph {g.name}.metadata_props"
        ids[id(g.opset_imports)] = f"graph {g.name}.opset_imports"
        ids[id(g.meta)] = f"graph {g.name}.meta"
        for n in g:
            ids[id(n)] = f"node {n.name}"
            ids[id(n.metadata_props)] = f"node {n.name}.metadata_props"
            ids[id(n.meta)] = f"node {n.name}.meta"
            ids[id(n.attributes)] = f"node {n.name}.attributes"
    for v in _values_of(graphs):
        ids[id(v)] = f"value {v.name}"
        ids[id(v.metadata_props)] = f"value {v.name}.metadata_props"
        ids[id(v.meta)] = f"value {v.name}.meta"
        if v.shape is not None:
            ids[id(v.shape)] = f"value {v.name}.shape"
        if v.type is not None:
            ids[id(v.type)] = f"value {v.name}.type"
    return ids


def execute(case):
    import onnx_ir as ir
    from onnx_ir import serde
    from props import c03
    from vlib import protogen, snapshot
    from vlib import universe as U

    try:
        mp, features = protogen.build_model(case["tape"], case.get("irv") or None, case.get("gen", 1))
        model = ir.from_proto(mp)
        kind = KINDS[case["kind"] % len(KINDS)]
        ops = case["ops"]
        deep = bool(case.get("deep"))
    except (KeyError, TypeError, IndexError):
        return dict(failures=[], nontrivial=False, classes=["malformed"])
    except Exception:
        return dict(failures=[], nontrivial=False, classes=["seed_rejected"])
    fails = []
    classes = [kind]
    try:
        if case.get("which", 0) % 3 == 1 and model.graph.inputs:
            # an output that is directly a graph input (no producer) - a shape cloners get wrong easily
            v0 = model.graph.inputs[case["kind"] % len(model.graph.inputs)]
            if not any(v0 is o for o in model.graph.outputs):
                model.graph.outputs.append(v0)
    except Exception:
        pass
    if _unsorted(model):
        # the cloner documents that it assumes topologically sorted graphs
        return dict(failures=[], nontrivial=False, classes=classes + ["unsorted_input_skipped"])
    for a_, b_ in case.get("pre") or []:
        try:
            pre_nodes = [n_ for g_ in _all_graphs(model) for n_ in g_ if n_.outputs and n_.outputs[0].name]
            if pre_nodes:
                n_ = pre_nodes[a_ % len(pre_nodes)]
                tens = [x.value for x in n_.attributes.values() if not x.is_ref() and x.type == ir.AttributeType.TENSOR and x.value is not None]
                if tens and b_ % 2:
                    t_ = tens[b_ % len(tens)]
                else:
                    t_ = ir.tensor([float(b_), 1.0], name=f"c13_attr_tensor{b_ % 3}")
                    n_.attributes[f"c13_t{b_ % 2}"] = ir.AttrTensor(f"c13_t{b_ % 2}", t_)
                n_.outputs[b_ % len(n_.outputs)].const_value = t_
                classes.append("output_const_value_is_attribute_tensor")
        except Exception:
            pass
    try:
        ir.to_proto(model)  # (the documented side effect of serializing - initializer tensor names - happens here, once)
        model_bytes_before = ir.to_proto(model).SerializeToString(deterministic=True)
    except Exception:
        model_bytes_before = None
    # --- clone ---------------------------------------------------------------------------------
    if deep:
        # analysis results kept in `meta` are often mutable containers: with deep_copy=True the clone must get its own
        for g_ in _all_graphs(model):
            g_.meta["c13_mut"] = ["graph", g_.name]
            for n_ in g_:
                n_.meta["c13_mut"] = {"node": [n_.name]}
        for v_ in _values_of(_all_graphs(model)):
            v_.meta["c13_mut"] = ["value", v_.name]
    subs = list(model.graph.subgraphs())
    exc = None
    orig_part = clone_part = None
    allow = "allow_outer" in kind
    try:
        if kind == "Model.clone":
            orig_part, clone_part = model, model.clone(deep_copy=deep)
        elif kind.startswith("Graph.clone"):
            orig_part, clone_part = model.graph, model.graph.clone(allow_outer_scope_values=allow, deep_copy=deep)
        elif kind.startswith("Subgraph.clone"):
            if not subs:
                return dict(failures=[], nontrivial=False, classes=classes + ["no_subgraph"])
            sg = subs[case["which"] % len(subs)]
            orig_part, clone_part = sg, sg.clone(allow_outer_scope_values=allow, deep_copy=deep)
        elif kind == "Function.clone":
            if not model.functions:
                return dict(failures=[], nontrivial=False, classes=classes + ["no_function"])
            f = list(model.functions.values())[case["which"] % len(model.functions)]
            orig_part, clone_part = f, f.clone(deep_copy=deep)
        elif kind == "GraphView.clone":
            g = model.graph
            view = ir.GraphView(list(g.inputs), list(g.outputs), nodes=list(g), initializers=list(g.initializers.values()),
                                doc_string=g.doc_string, opset_imports=dict(g.opset_imports), name=g.name, metadata_props=dict(g.metadata_props))
            orig_part, clone_part = g, view.clone(deep_copy=deep)
        else:  # functionalize
            from onnx_ir import passes
            from onnx_ir.passes import common as pc

            P = [pc.RemoveUnusedNodesPass, pc.NameFixPass, pc.ClearMetadataAndDocStringPass, pc.TopologicalSortPass][case["which"] % 4]
            u0 = U.Universe.from_model(model)
            s0 = c03._mask(snapshot.take(u0, with_ids=False))
            p0 = _mask_attr_tensor_names(ir.to_proto(model))
            try:
                res = passes.functionalize(P())(model)
            except Exception as e:
                res = None
                classes.append(f"pass_raised_{type(e).__name__}")
            s1 = c03._mask(snapshot.take(u0, with_ids=False))  # (own names of shared tensors masked, see _mask_attr_tensor_names)
            if s0 != s1 or _mask_attr_tensor_names(ir.to_proto(model)) != p0:
                fails.append((f"functionalized-pass-altered-input/{P.__name__}", f"functionalize({P.__name__}) changed its input model: {snapshot.diff(s0, s1)}"[:500]))
            if res is not None and res.model is model:
                fails.append((f"functionalized-pass-same-object/{P.__name__}", "functional pass returned the input model object"))
            return dict(failures=fails, nontrivial=bool(features & {"nested_graph"}), classes=classes)
    except Exception as e:
        exc = e
    if exc is not None:
        # an error is acceptable when the graph is unsorted or references outer-scope values without permission
        uses_outer = _uses_outer(orig_part) if orig_part is not None else True
        classes.append("clone_raised")
        if features & {"unsorted_nodes"} or (uses_outer and not allow):
            return dict(failures=[], nontrivial=False, classes=classes)
        # clone target not yet assigned (exception inside clone call): recompute orig for the check
        root = exc
        while root.__cause__ is not None:
            root = root.__cause__
        tgt = model.graph if "Graph" in kind or kind == "Model.clone" else None
        outer = _uses_outer(tgt) if tgt is not None else True
        if outer and not allow or features & {"unsorted_nodes"} or _unsorted(model):
            return dict(failures=[], nontrivial=False, classes=classes)
        return dict(failures=[(f"clone-raised/{kind}/{type(root).__name__}", f"{kind} raised {type(root).__name__}: {root}"[:300])], nontrivial=True, classes=classes)

    # --- 0. cloning is a read-only operation on the original ---------------------------------------------------
    if model_bytes_before is not None:
        try:
            if ir.to_proto(model).SerializeToString(deterministic=True) != model_bytes_before:
                from vlib import protocanon
                import onnx as _onnx

                a0, a1 = _onnx.ModelProto(), ir.to_proto(model)
                a0.ParseFromString(model_bytes_before)
                d0 = protocanon.first_diff(a0, a1)
                fails.append((f"cloning-changed-the-original/{d0[0] if d0 else '?'}", f"{kind}: the original model serializes differently after it was cloned: {d0[1] if d0 else ''}"[:400]))
        except Exception:
            pass
    # --- 1. serializes identically -----------------------------------------------------------------
    def ser(x):
        if isinstance(x, ir.Model):
            return ir.to_proto(x)
        if isinstance(x, ir.Function):
            return serde.serialize_function(x)
        return serde.serialize_graph(x)

    try:
        po, pc_ = ser(orig_part), ser(clone_part)
        if po.SerializeToString(deterministic=True) != pc_.SerializeToString(deterministic=True):
            from vlib import protocanon

            d = protocanon.first_diff(po, pc_)
            fails.append((f"clone-serializes-differently/{d[0] if d else '?'}", f"{kind}: {d[1] if d else ''}"[:400]))
    except Exception as e:
        fails.append((f"serialize-raised/{type(e).__name__}", f"{kind}: serializing original/clone raised {type(e).__name__}: {e}"[:300]))
    # --- 2. disjoint identities ------------------------------------------------------------------------
    go, gc = _all_graphs(orig_part if not isinstance(orig_part, ir.Function) else orig_part.graph), _all_graphs(clone_part if not isinstance(clone_part, ir.Function) else clone_part.graph)
    io, ic = _ident_sets(go), _ident_sets(gc)
    shared = [io[k] for k in io if k in ic]
    # outer-scope values legitimately shared when allowed: they are not *defined* in the clone, so they are not in these sets
    if shared:
        what = sorted({s.split(" ")[0] + ("." + s.rsplit(".", 1)[1] if "." in s.split(" ", 1)[1] and s.rsplit(".", 1)[1] in ("type", "shape", "metadata_props", "meta", "attributes", "opset_imports") else "") for s in shared})
        fails.append((f"shared-object/{','.join(what)[:50]}", f"{kind}: clone and original share {shared[:4]}"))
    if deep:
        def meta_objs(graphs):
            out = {}
            for g_ in graphs:
                for owner, label in [(g_, f"graph {g_.name}")] + [(n_, f"node {n_.name} of graph {g_.name}") for n_ in g_]:
                    for k_, val in owner.meta.items():
                        if isinstance(val, (list, dict, set)):
                            out[id(val)] = f"{label}.meta[{k_!r}]"
            for v_ in _values_of(graphs):
                for k_, val in v_.meta.items():
                    if isinstance(val, (list, dict, set)):
                        out[id(val)] = f"value {v_.name}.meta[{k_!r}]"
            return out

        mo, mc = meta_objs(go), meta_objs(gc)
        both = [mo[k] for k in mo if k in mc]
        if both:
            nested = any(g_ is not go[0] for g_ in go for lbl in both if f"graph {g_.name}" in lbl)
            fails.append((f"deep-copy-shares-meta-value/{'nested' if nested else 'top'}", f"{kind}(deep_copy=True): mutable meta values shared with the original: {both[:3]}"))
        if "GraphView" in kind:  # the view is an object of its own: the viewed graph's own meta store is not the view's
            mo = {k: v for k, v in mo.items() if not v.startswith(f"graph {go[0].name}.meta")}
            mc = {k: v for k, v in mc.items() if not v.startswith(f"graph {gc[0].name}.meta")}
        if len(mc) != len(mo):
            fails.append(("deep-copy-lost-meta-value", f"{kind}(deep_copy=True): {len(mo)} mutable meta values in the original, {len(mc)} in the clone"))
        classes.append("deep_copy_meta")
    # --- 3. references point into the clone -----------------------------------------------------------
    defined = {id(v) for v in _values_of(gc)}
    orig_defined = {id(v) for v in _values_of(go)}
    for g in gc:
        for n in g:
            for v in n.inputs:
                if v is not None and id(v) not in defined:
                    if id(v) in orig_defined or not allow:
                        fails.append(("clone-references-original", f"{kind}: cloned node {n.name} uses {v.name!r} which is defined in the original" if id(v) in orig_defined else f"{kind}: cloned node uses outer value {v.name!r} although outer-scope values were not allowed"))
            for dc in n.device_configurations or ():
                for spec in dc.sharding_specs:
                    if spec.value is not None and id(spec.value) in orig_defined and id(spec.value) not in defined:
                        fails.append(("clone-sharding-references-original", f"{kind}: a sharding spec of cloned node {n.name!r} targets value {spec.value.name!r} of the original"))
        for v in g.outputs:
            if id(v) not in defined and (id(v) in orig_defined or not allow):
                fails.append(("clone-output-references-original", f"{kind}: a graph output of the clone is not defined in the clone"))
    # --- 4. independence under edits -------------------------------------------------------------------
    def wrap(part):
        if isinstance(part, ir.Model):
            return part
        if isinstance(part, ir.Function):
            return ir.Model(ir.Graph([], [], nodes=[], name="dummy"), ir_version=model.ir_version, functions=[part])
        return ir.Model(part, ir_version=model.ir_version) if part is not model.graph else model

    edited, other = (clone_part, orig_part) if case["which"] % 2 == 0 else (orig_part, clone_part)
    other_model = wrap(other)
    uo = U.Universe.from_model(other_model)
    other_graphs = _all_graphs(other if not isinstance(other, ir.Function) else other.graph)

    def local_snapshot():
        """Objects DEFINED in the other copy only; consumers living elsewhere (outer-scope sharing) are masked."""
        uo.sweep()
        local_nodes = {id(n) for g in other_graphs for n in g}
        out = [snapshot.snap_graph(uo, g) for g in other_graphs]
        out += [snapshot.snap_node(uo, n) for g in other_graphs for n in g]
        for v in _values_of(other_graphs):
            rec = snapshot.snap_value(uo, v, with_ids=False)
            uses = tuple((uo.idx(n), i) for n, i in v.uses() if id(n) in local_nodes)
            rec = rec[:4] + ((rec[4][0],) if rec[4] else None,) + rec[5:]  # shared tensor object: identity yes, own name no
            out.append(rec[:-1] + (uses,))
        return out

    s_before = local_snapshot()
    p_before = None
    try:
        p_before = ser(other).SerializeToString(deterministic=True)
    except Exception:
        pass
    touched = False
    edited_model = wrap(edited)
    ctx = c03.Ctx(edited_model)
    applied = []
    for op in ops:
        try:
            if op[0] == "s":
                gs = _all_graphs(edited if not isinstance(edited, ir.Function) else edited.graph)
                touched = setter(gs, op) or touched
            else:
                c03.apply_op(ctx, op[1:])
            applied.append(op[0] + str(op[1]))
        except Exception:
            continue
    s_after = local_snapshot()
    if s_before != s_after:
        fields = sorted({history_label(kd, j) for kd, j in snapshot.diff_fields(s_before, s_after)})
        fails.append((f"not-independent/{','.join(fields)[:60]}", f"{kind}: editing the {'clone' if case['which'] % 2 == 0 else 'original'} with {applied} changed the other copy: {snapshot.diff(s_before, s_after)}"[:600]))
    elif p_before is not None:
        try:
            # tensors are shared between a clone and its original by design, and renaming a value renames the tensor it
            # holds: the own names of attribute tensors are therefore masked (a Constant's attribute tensor is often
            # the const_value of its output); clause 0 above compares them unmasked for the act of cloning itself
            if _mask_attr_tensor_names(ser(other)) != _mask_attr_tensor_names_bytes(p_before, other):
                fails.append(("not-independent/serialized", f"{kind}: editing one copy with {applied} changed how the other serializes"))
        except Exception:
            pass
    shared_value = any(len(v.uses()) >= 2 for v in _values_of(go))
    nontrivial = (bool(features & {"nested_graph"}) or shared_value) and touched
    if features & {"nested_graph"}:
        classes.append("nested_graph")
    if touched:
        classes.append("setter_applied")
    seen, out = set(), []
    for b_, m in fails:
        if b_ not in seen:
            seen.add(b_)
            out.append((b_, m))
    return dict(failures=out, nontrivial=nontrivial, classes=classes)


def history_label(kind, j):
    from vlib import history

    return history.field_label(kind, j)


def _uses_outer(g):
    import onnx_ir as ir

    if g is None:
        return True
    if isinstance(g, ir.Function):
        g = g.graph
    if isinstance(g, ir.Model):
        g = g.graph
    graphs = _all_graphs(g)
    defined = {id(v) for v in _values_of(graphs)}
    for gg in graphs:
        for n in gg:
            for v in n.inputs:
                if v is not None and id(v) not in defined:
                    return True
        for v in gg.outputs:
            if id(v) not in defined:
                return True
    return False


def _unsorted(model):
    from props import c12

    graphs = _all_graphs(model)
    return bool(c12.order_violations(graphs))

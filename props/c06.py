"""C06 - a rejected edit leaves every IR object exactly as it was."""

from __future__ import annotations

from vlib import history, snapshot
from vlib import universe as U

ID = "C06"
LEVEL = "fault_enumeration"
RULE = (
    "case = generated edit script (same alphabet/universe as C01) whose index-decoded arguments make a "
    "large share of the calls raise, plus 'fault_enum' steps that take a multi-element mutator "
    "(inputs/outputs extend / slice assignment, Graph.extend/insert_before/insert_after/remove, "
    "initializers.update, rename_values) and ENUMERATE every position k at which the one invalid element "
    "can sit among valid ones. Oracle: snapshot of all public accessors of all objects ever created "
    "(incl. the arguments) immediately before == immediately after every raising call; plus a "
    "differential replay of the history without the rejected calls, both followed by one fixed tail of later edits "
    "(append twice/pop/remove on every input/output list, register/rename/unregister as initializer) whose step-by-step "
    "outcomes must agree (sees name-authority and reference counters). "
    "Non-trivial = a call raised AND (the raising call had a multi-element argument or >=2 graphs were "
    "populated). distinct = distinct script JSON."
)
ASSUMPTIONS = [
    "arguments of the wrong Python type are not generated",
    "observable = public accessors listed in vlib/snapshot.py; IR-private caches are seen only through the differential replay",
    "holds on the cases explored only",
]
TECHNIQUE = 'property-based fault enumeration: generated edit histories with rejected calls, every position of the invalid element in multi-element arguments enumerated; before/after snapshot oracle plus differential replay without the rejected calls'
LEVEL_TEXT = 'Fault enumeration over generated states: for each generated pre-state, rejected single calls are snapshot-compared, and for multi-element mutators every position k of the invalid element is enumerated. Exhaustive only over k, sampled over states.'
BUDGET = {"quick": (16, 900), "thorough": (16, 16000)}
PHASES = ["main"]
EXCLUDED_OPS = []

FAULT_KINDS = ["io_extend", "io_setslice", "g_extend", "g_insert_before", "g_insert_after", "g_remove",
               "g_remove_safe", "init_update", "conv_rename", "conv_rauw", "g_sort_cycle", "io_setslice_ext", "conv_rename_graphs",
               "v_rauw_foreign"]


def strategy(tier, phase):
    from hypothesis import strategies as st

    names = list(U.DEFAULT_OPS)
    if phase == "excl":
        names = [n for n in names if n not in EXCLUDED_OPS]
    max_ops = 30 if tier == "quick" else 80
    fault = st.tuples(
        st.just("fault_enum"), st.integers(0, len(FAULT_KINDS) - 1), st.integers(0, 3), st.integers(0, 1),
        st.integers(0, 40), st.integers(0, 3),
    ).map(list)
    opst = st.one_of(U.op_strategy(names), U.op_strategy(names), fault)
    return st.fixed_dictionaries(
        # safe=True always: the op variant of the C01 known finding (a graph input/initializer accepted as
        # node output) produces states that already violate C01; atomicity is judged on consistent states.
        {"setup": st.integers(0, 1), "safe": st.just(True), "ops": st.sampled_from([2, 4, 8, 14, 24, max_ops]).flatmap(
            lambda n: st.one_of(st.lists(opst, min_size=max(1, n // 2), max_size=n), st.lists(U.op_strategy(names), min_size=max(1, n // 2), max_size=n)))}
    )


def _role_owner(u, v):
    return history.owners_of(u, v)


def _fault_enum(u, op):
    """Enumerate all positions of one invalid element inside a multi-element argument.

    Returns (n_calls_raised, failure or None).
    """
    _, kind_i, h, c, pick, nvalid = op
    kind = FAULT_KINDS[kind_i % len(FAULT_KINDS)]
    H = u.H(h)
    G = u.G(h)
    calls = 0

    def attempt(fn, label):
        nonlocal calls
        before = snapshot.take(u)
        try:
            fn()
        except U.Malformed:
            raise
        except Exception as e:
            calls += 1
            u.sweep()
            after = snapshot.take(u)
            if after != before:
                fields = sorted(history.field_label(kd, j) for kd, j in snapshot.diff_fields(before, after))
                return ("raised", (f"atomic/fault_enum:{label}/{type(e).__name__}",
                        f"{label} raised {type(e).__name__}({str(e)[:100]!r}) but state changed: {fields} :: {snapshot.diff(before, after)}"))
            return ("raised", None)
        u.sweep()
        return ("returned", None)

    if kind in ("io_extend", "io_setslice"):
        coll = u.IO(H, c)
        is_inputs = c % 2 == 0
        valid = [v for v in u.values if not _role_owner(u, v) and (v.producer() is None or not is_inputs)]
        invalid = [v for v in u.values if any(g is not G for g in _role_owner(u, v)) or (is_inputs and v.producer() is not None)]
        if not invalid or not valid:
            return 0, None
        bad = invalid[pick % len(invalid)]
        if nvalid % 2 == 1 and len(valid) >= 2:
            # the invalid element has a past in this very list: it was a member, was removed, and now belongs to another graph
            others = [g for g in u.graphs if g is not G]
            v = valid[pick % len(valid)]
            if others:
                try:
                    coll.append(v)
                    coll.remove(v)
                    (others[pick % len(others)].inputs if v.producer() is None else others[pick % len(others)].outputs).append(v)
                    bad = v
                    valid = [x for x in valid if x is not v]
                except Exception:
                    pass
                u.sweep()
        good = [valid[(pick + j) % len(valid)] for j in range(1 + nvalid % 3)]
        for k in range(len(good) + 1):
            arg = good[:k] + [bad] + good[k:]
            if kind == "io_extend":
                st, f = attempt(lambda: coll.extend(arg), f"{'inputs' if is_inputs else 'outputs'}.extend@k={min(k,2)}")
            else:
                st, f = attempt(lambda: coll.__setitem__(slice(0, 1), arg), f"{'inputs' if is_inputs else 'outputs'}.setslice@k={min(k,2)}")
            if f or st == "returned":
                return calls, f
    elif kind in ("g_extend", "g_insert_before", "g_insert_after"):
        valid = [n for n in u.nodes if n.graph is None or n.graph is G]
        invalid = [n for n in u.nodes if n.graph is not None and n.graph is not G]
        anchors = [n for n in u.nodes if n.graph is G]
        if not invalid or not valid or (kind != "g_extend" and not anchors):
            return 0, None
        bad = invalid[pick % len(invalid)]
        good = [valid[(pick + j) % len(valid)] for j in range(1 + nvalid % 3)]
        for k in range(len(good) + 1):
            arg = good[:k] + [bad] + good[k:]
            if kind == "g_extend":
                st, f = attempt(lambda: H.extend(arg), f"extend@k={min(k,2)}")
            elif kind == "g_insert_before":
                st, f = attempt(lambda: H.insert_before(anchors[pick % len(anchors)], arg), f"insert_before@k={min(k,2)}")
            else:
                st, f = attempt(lambda: H.insert_after(anchors[pick % len(anchors)], arg), f"insert_after@k={min(k,2)}")
            if f or st == "returned":
                return calls, f
    elif kind in ("g_remove", "g_remove_safe"):
        valid = [n for n in u.nodes if n.graph is G]
        if kind == "g_remove":
            invalid = [n for n in u.nodes if n.graph is not G]
        else:
            gouts = list(G.outputs)
            invalid = [n for n in valid if any(o.uses() or any(o is x for x in gouts) for o in n.outputs)]
            valid = [n for n in valid if not any(n is b for b in invalid)]
        if not invalid or not valid:
            return 0, None
        bad = invalid[pick % len(invalid)]
        good = [valid[(pick + j) % len(valid)] for j in range(1 + nvalid % 3)]
        for k in range(len(good) + 1):
            arg = good[:k] + [bad] + good[k:]
            st, f = attempt(lambda: H.remove(arg, safe=(kind == "g_remove_safe")), f"{kind}@k={min(k,2)}")
            if f or st == "returned":
                return calls, f
    elif kind == "init_update":
        valid = [v for v in u.values if isinstance(v.name, str) and v.name and v.producer() is None
                 and all(g is G for g in _role_owner(u, v))]
        invalid = [v for v in u.values if isinstance(v.name, str) and v.name and (
            v.producer() is not None or any(g is not G for g in _role_owner(u, v)))]
        # distinct names so that the dict keeps all entries
        seen = set()
        valid2 = []
        for v in valid:
            if v.name not in seen:
                seen.add(v.name)
                valid2.append(v)
        invalid = [v for v in invalid if v.name not in seen]
        if not invalid or not valid2:
            return 0, None
        bad = invalid[pick % len(invalid)]
        good = valid2[: 1 + nvalid % 3]
        for k in range(len(good) + 1):
            arg = good[:k] + [bad] + good[k:]
            st, f = attempt(lambda: G.initializers.update({v.name: v for v in arg}), f"initializers.update@k={min(k,2)}")
            if f or st == "returned":
                return calls, f
    elif kind == "conv_rename":
        from onnx_ir import convenience as conv

        inits = [v for v in G.initializers.values()]
        others = [v for v in u.values if not v.is_initializer()]
        if len(inits) < 2 or not others:
            return 0, None
        outsider = inits[pick % len(inits)]
        mover = [v for v in inits if v is not outsider][0]
        good = [others[(pick + j) % len(others)] for j in range(1 + nvalid % 3)]
        for k in range(len(good) + 1):
            vals = good[:k] + [mover] + good[k:]
            names = [f"r{j}" for j in range(len(good))]
            names = names[:k] + [outsider.name] + names[k:]
            st, f = attempt(lambda: conv.rename_values(vals, names), f"rename_values@k={min(k,2)}")
            if f or st == "returned":
                return calls, f
    elif kind == "conv_rename_graphs":
        # multi-element "argument" = the graphs whose initializers one bulk rename touches; the invalid element = the
        # graph (at every position k) in which the new name collides with an initializer outside the rename set
        from onnx_ir import convenience as conv

        import onnx_ir as ir

        owners = [g for g in u.graphs if all(g is not getattr(f, "graph", None) for f in getattr(u, "functions", []))][: 2 + nvalid % 2]
        pairs = []
        for gi, g in enumerate(owners):
            try:
                a = ir.Value(name=f"mg{gi}_{len(u.values)}_a", const_value=u.tensor(0))
                b_ = ir.Value(name=f"mg{gi}_{len(u.values)}_b", const_value=u.tensor(3))
                g.initializers.add(a)
                g.initializers.add(b_)
            except Exception:
                continue
            u.reg_value(a)
            u.reg_value(b_)
            pairs.append((g, a, b_))
        u.sweep()
        if len(pairs) < 2:
            return 0, None
        for k in range(len(pairs)):
            vals = [a for _, a, _ in pairs]
            names = [(b_.name if j == k else f"{a.name}_renamed") for j, (_, a, b_) in enumerate(pairs)]
            st, f = attempt(lambda: conv.rename_values(vals, names), f"rename_values-collision-in-graph@k={min(k,2)}")
            if f or st == "returned":
                return calls, f
    elif kind == "conv_rauw":
        from onnx_ir import convenience as conv

        outs = [v for g in u.graphs for v in g.outputs]
        plain = [v for v in u.values if not v.is_graph_output() and v.uses()]
        if not outs or not plain:
            return 0, None
        bad = outs[pick % len(outs)]
        good = [plain[(pick + j) % len(plain)] for j in range(1 + nvalid % 3)]
        repl = u.values[pick % len(u.values)]
        for k in range(len(good) + 1):
            vals = good[:k] + [bad] + good[k:]
            st, f = attempt(lambda: conv.replace_all_uses_with(vals, [repl] * len(vals)), f"conv.replace_all_uses_with@k={min(k,2)}")
            if f or st == "returned":
                return calls, f
    elif kind == "g_sort_cycle":
        # multi-element "argument" = the (sub)graphs a sort has to process; the invalid element = the one containing a
        # cycle, at every position k among acyclic-but-unsorted ones. sort() must raise and reorder nothing anywhere.
        import onnx_ir as ir

        m = 2 + nvalid % 3
        for k in range(m):
            holders = []
            for j in range(m):
                tag = f"sc{len(u.nodes)}_{j}"
                if j == k:  # x <-> y cycle
                    x = ir.Node("", "Neg", [None], num_outputs=1, name=tag + "x")
                    y = ir.Node("", "Abs", [x.outputs[0]], num_outputs=1, name=tag + "y")
                    x.replace_input_with(0, y.outputs[0])
                    body = [x, y]
                else:  # chain a -> b -> c stored as c, b, a
                    a = ir.Node("", "Relu", [], num_outputs=1, name=tag + "a")
                    b_ = ir.Node("", "Neg", [a.outputs[0]], num_outputs=1, name=tag + "b")
                    c_ = ir.Node("", "Abs", [b_.outputs[0]], num_outputs=1, name=tag + "c")
                    body = [c_, b_, a]
                for n_ in body:
                    n_.outputs[0].name = n_.name + "_o"
                sub = ir.Graph([], [body[0].outputs[0]], nodes=body, name=tag + "g")
                holder = ir.Node("", "If", [], [ir.AttrGraph("then_branch", sub)], num_outputs=1, name=tag + "h")
                holders.append(holder)
                for n_ in body + [holder]:
                    u.reg_node(n_)
                u.reg_graph(sub)
            try:
                H.extend(holders)
            except Exception:
                return calls, None
            u.sweep()
            st, f = attempt(lambda: H.sort(), f"sort-with-cycle-in-subgraph@k={min(k,2)}")
            try:
                H.remove(holders)
            except Exception:
                pass
            u.sweep()
            if f:
                return calls, f
    elif kind == "v_rauw_foreign":
        # the method spelling Value.replace_all_uses_with(replace_graph_outputs=True) on a value that is consumed by nodes AND
        # listed as a graph output, with a replacement that another graph owns: rejected as a whole, consumers included
        cands = [v for v in u.values if v.is_graph_output() and v.uses() and v.graph is not None]
        if not cands:
            return 0, None
        x = cands[pick % len(cands)]
        foreign = [v for v in u.values if v is not x and any(g is not x.graph for g in _role_owner(u, v))]
        if not foreign:
            return 0, None
        for k in range(min(3, len(foreign))):
            r = foreign[(pick + k) % len(foreign)]
            st, f = attempt(lambda: x.replace_all_uses_with(r, replace_graph_outputs=True), "Value.replace_all_uses_with(graph outputs, foreign replacement)")
            if f:
                return calls, f
    elif kind == "io_setslice_ext":
        # extended-slice assignment whose right-hand side has the wrong length: every element is acceptable, the call as
        # a whole is not (list semantics) - it must be rejected before any ownership is touched
        coll = u.IO(H, c)
        is_inputs = c % 2 == 0
        valid = [v for v in u.values if not _role_owner(u, v) and (v.producer() is None or not is_inputs)]
        if len(coll) < 2 or not valid:
            return 0, None
        want = len(range(*slice(None, None, 2).indices(len(coll))))
        for size in range(0, want + 2):
            if size == want:
                continue
            arg = [valid[(pick + j) % len(valid)] for j in range(size)]
            if len({id(v) for v in arg}) != len(arg):
                continue
            st, f = attempt(lambda: coll.__setitem__(slice(None, None, 2), arg), f"{'inputs' if is_inputs else 'outputs'}.setslice-extended-size{min(size,2)}")
            if f or st == "returned":
                return calls, f
    return calls, None


def execute(case):
    setup = case.get("setup", 1)
    ops = case.get("ops", [])
    fails = []
    failing_case = None
    stats = dict(raised=0, multi=False, fault_calls=0, executed=0)
    try:
        u = U.Universe(setup, case.get('safe', False))
        for k, op in enumerate(ops):
            if not isinstance(op, list) or not op:
                raise U.Malformed("bad op")
            stats["executed"] += 1
            if op[0] == "fault_enum":
                if len(op) != 6:
                    raise U.Malformed("arity")
                calls, f = _fault_enum(u, op)
                stats["fault_calls"] += calls
                stats["raised"] += calls
                if calls:
                    stats["multi"] = True
                if f:
                    fails.append(f)
                    failing_case = {"setup": setup, "safe": case.get("safe", False), "ops": ops[: k + 1]}
                    break
                continue
            if op[0] not in U.ALPHABET:
                raise U.Malformed("bad op")
            before = snapshot.take(u)
            exc = U.run_op(u, op)
            u.sweep()
            if exc is not None:
                stats["raised"] += 1
                if any(isinstance(a, list) and len(a) >= 2 for a in op[1:]):
                    stats["multi"] = True
                after = snapshot.take(u)
                if after != before:
                    fields = sorted(history.field_label(kd, j) for kd, j in snapshot.diff_fields(before, after))
                    fails.append((
                        f"atomic/{op[0]}/{type(exc).__name__}",
                        f"op#{k} {op} raised {type(exc).__name__}({str(exc)[:120]!r}) but state changed: "
                        f"fields={fields} :: {snapshot.diff(before, after)}",
                    ))
                    failing_case = {"setup": setup, "safe": case.get("safe", False), "ops": ops[: k + 1]}
                    break
        populated = sum(1 for g in u.graphs if len(g) > 0)
    except U.Malformed:
        return dict(failures=[], nontrivial=False, classes=["malformed"])
    # differential replay without the rejected calls (only when nothing failed so far)
    if not fails and stats["raised"] and not any(o[0] == "fault_enum" for o in ops):
        d = _differential(setup, ops, case.get('safe', False))
        if d:
            fails.append(d)
    nontrivial = stats["raised"] > 0 and (stats["multi"] or populated >= 2)
    classes = []
    if stats["raised"]:
        classes.append("has_rejected_call")
    if stats["executed"]:
        frac = stats["raised"] / max(1, stats["executed"] + stats["fault_calls"])
        classes.append("raise_frac>=40%" if frac >= 0.4 else "raise_frac<40%")
    if stats["fault_calls"]:
        classes.append("fault_enum_hit")
    if stats["multi"]:
        classes.append("rejected_multi_element")
    out = dict(failures=fails, nontrivial=nontrivial, classes=classes)
    if failing_case:
        out["failing_case"] = failing_case
    return out


def _differential(setup, ops, safe=False):
    """history with rejected calls vs history without them must end in equal snapshots."""
    u1 = U.Universe(setup, safe)
    raised = []
    for k, op in enumerate(ops):
        if U.run_op(u1, op) is not None:
            raised.append(k)
        u1.sweep()
    u2 = U.Universe(setup, safe)
    rs = set(raised)
    for k, op in enumerate(ops):
        if k in rs:
            continue
        if U.run_op(u2, op) is not None:
            # decoding diverged (an earlier rejected call had an effect): report on the first rejected op
            first = ops[raised[0]][0] if raised else "?"
            return (f"differential/diverged/{first}", f"replay without rejected calls {raised} diverged at op#{k} {op}")
        u2.sweep()
    s1 = snapshot.take(u1, with_ids=False)
    s2 = snapshot.take(u2, with_ids=False)
    if s1 == s2:
        # the two histories ended in equal public states: drive both through the same fixed tail of accepted edits, which
        # makes IR-private bookkeeping (reference counters of the input/output lists, name registrations) observable
        t1, t2 = _stress_tail(u1), _stress_tail(u2)
        if t1 != t2:
            j = next(i for i, (a, b) in enumerate(zip(t1, t2)) if a != b)
            first = "?"
            for r in raised:  # attribute to the rejected call that alone (all other rejected calls left out) changes the tail
                u3 = U.Universe(setup, safe)
                for k, op in enumerate(ops):
                    if k in rs and k != r:
                        continue
                    U.run_op(u3, op)
                    u3.sweep()
                if _stress_tail(u3) != t2:
                    first = ops[r][0]
                    break
            return (f"differential/later-edits/{first}", f"after rejected calls {raised} the same later edits behave differently: step {t1[j][0]} gives {t1[j][1:]} "
                    f"but {t2[j][1:]} when the rejected calls are left out")
        return None
    if s1 != s2:
        # attribute to the single rejected op whose removal alone changes the outcome, if any
        culprit = "?"
        for r in raised:
            u3 = U.Universe(setup, safe)
            okk = True
            for k, op in enumerate(ops):
                if k == r:
                    continue
                e = U.run_op(u3, op)
                u3.sweep()
            if snapshot.take(u3, with_ids=False) != s1:
                culprit = ops[r][0]
                break
        return (f"differential/{culprit}", f"final state differs when rejected calls {raised} are left out: {snapshot.diff(s2, s1)}")
    return None


def _stress_tail(u):
    return U.stress_tail(u)

"""C08 - an interrupted external-data save never damages an existing data file."""

from __future__ import annotations

import os
import shutil
import tempfile

import numpy as np

ID = "C08"
LEVEL = "fault_enumeration"
TECHNIQUE = (
    "property-based fault enumeration: for every generated save configuration an uninjected run counts the file-system "
    "effect points (temp dir creation, temp file open, each tensor write start/middle/end, callbacks, mode copy, "
    "rename, cleanup, final model write); then EVERY point is hit three times - by an injected OSError, by an injected KeyboardInterrupt (a BaseException that "
    "is not an Exception) and by killing a "
    "forked child with os._exit - and the directory is inspected against the old/new reference bytes; file-system points are "
    "additionally hit with EXDEV/EBUSY/EACCES (raised as the OSError subclass Python maps the errno to) followed by a second fault (exception, crash) at every effect point of the recovery path; "
    "copies performed through shutil are executed stepwise (truncate / half / rest) so that their middle is a crash point; "
    "one fault that is not a file-system fault is generated too: the caller keeps an array view of an external tensor that reads "
    "from the destination, so that its mapping cannot be closed when the file is to be replaced"
)
LEVEL_TEXT = (
    "Exhaustive over the Python-visible effect points of each generated configuration (both failure modes), sampled "
    "over configurations (tensor kinds/sizes, pre-existing destination that external tensors read from, foreign "
    "pre-existing files, sharded layouts with colliding and non-colliding files, serial and 2-worker writers)."
)
TRUSTED = "vlib/faultfs.py proxies (self-tested); os.fork/_exit semantics; reference bytes from an uninjected run in a separate directory"
RULE = (
    "case = tensors (two-chunk writer tensors with a mid-write point, external tensors reading from the destination or "
    "from another file, lazy tensors) + pre-existing state (none / destination referenced by the model / foreign file at "
    "the destination / stale or colliding shard files) + options (threshold, shard limit, workers, callback). "
    "evaluations = injected runs. Non-trivial injected run = the destination existed before and the point lies between "
    "the first temp-file write and the rename (inclusive). distinct = (case JSON, point, mode)."
)
ASSUMPTIONS = [
    "crash points are Python-visible effects; a crash inside a single write(2) and power loss (un-synced page cache) are not modelled",
    "for faults injected after the rename succeeded (cleanup), only 'no mixture' is asserted - producing the new file did not fail",
    "with 2 workers only tensor-bound faults (tensor j start/mid/end) are used, because the global order of effect points is schedule dependent",
]
BUDGET = {"quick": (16, 40), "thorough": (16, 1200)}


def strategy(tier, phase):
    from hypothesis import strategies as st

    t = st.fixed_dictionaries({"kind": st.sampled_from([0, 0, 1, 1, 2, 3, 4, 0, 0, 1, 1, 2, 3, 4, 0, 1, 5]), "size": st.sampled_from([8, 24, 100, 300, 0]), "seed": st.integers(0, 255)})
    return st.fixed_dictionaries({
        "tensors": st.lists(t, min_size=1, max_size=4), "pre": st.integers(0, 3), "shard": st.sampled_from([None, None, None, 64, 200]),
        "workers": st.sampled_from([None, None, 1, 2]), "threshold": st.sampled_from([0, 0, 16]), "callback": st.booleans(),
        "dest": st.sampled_from(["m.data", "sub/w.bin"]), "hold": st.sampled_from([None, 0, 1, 2]),
    })


class Boom(Exception):
    pass


def _payload(seed, size):
    return bytes((seed * 31 + 7 * i) & 0xFF for i in range(size))


def setup(case, wd, inj_ref):
    """Build files + model in directory wd.  Returns (model, info)."""
    import onnx_ir as ir

    dest_rel = case["dest"]
    dest = os.path.join(wd, dest_rel)
    os.makedirs(os.path.dirname(dest), exist_ok=True)
    other = os.path.join(wd, "other.bin")
    pre = case["pre"] % 4
    same_chunks, other_chunks = [], []
    specs = case["tensors"]
    # pre-existing destination content: the payloads of the 'external_same' tensors (+ padding)
    for i, sp in enumerate(specs):
        if sp["kind"] == 1 and pre == 1:
            same_chunks.append((i, _payload(sp["seed"], sp["size"])))
        elif sp["kind"] == 2:
            other_chunks.append((i, _payload(sp["seed"], sp["size"])))
    offsets = {}
    if pre == 1:
        with open(dest, "wb") as f:
            f.write(b"OLDHEAD!")
            for i, data in same_chunks:
                offsets[i] = f.tell()
                f.write(data)
                f.write(b"\x99" * 5)
    elif pre == 2:
        with open(dest, "wb") as f:
            f.write(b"FOREIGN-FILE-CONTENT" * 3)
    if other_chunks:
        with open(other, "wb") as f:
            for i, data in other_chunks:
                offsets[i] = f.tell()
                f.write(data)
    stale = {}
    if case["shard"] is not None:
        from onnx_ir._shard_filename import get_shard_filename

        if pre == 3:  # colliding shard file of a plausible layout
            for total in (1, 2, 3, 4):
                p = os.path.join(wd, get_shard_filename(dest_rel, 1, total))
                if not os.path.exists(p):
                    with open(p, "wb") as f:
                        f.write(b"COLLIDING-SHARD")
        p = os.path.join(wd, get_shard_filename(dest_rel, 9, 9))
        with open(p, "wb") as f:
            f.write(b"STALE-SHARD")
    values = []
    ext_same, chunk_tensors = [], []
    for i, sp in enumerate(specs):
        data = _payload(sp["seed"], sp["size"])
        arr = np.frombuffer(data, dtype=np.uint8).copy()
        kind = sp["kind"]
        if kind == 1 and pre == 1:
            t = ir.ExternalTensor(dest_rel, offsets[i], len(data), ir.DataType.UINT8, shape=ir.Shape([len(data)]), name=f"w{i}", base_dir=wd)
            ext_same.append((t, data))
        elif kind == 2:
            t = ir.ExternalTensor("other.bin", offsets[i], len(data), ir.DataType.UINT8, shape=ir.Shape([len(data)]), name=f"w{i}", base_dir=wd)
        elif kind == 4:
            # an external tensor of ANOTHER directory whose file has the same relative location as the destination
            # (initializers merged from two models that both call their data file the same)
            twin_dir = os.path.join(wd, "twin")
            tp_ = os.path.join(twin_dir, dest_rel)
            os.makedirs(os.path.dirname(tp_), exist_ok=True)
            with open(tp_, "ab") as f:
                off_ = f.tell()
                f.write(data)
                f.write(b"\x77" * 3)
            t = ir.ExternalTensor(dest_rel, off_, len(data), ir.DataType.UINT8, shape=ir.Shape([len(data)]), name=f"w{i}", base_dir=twin_dir)
        elif kind == 5:
            # an external tensor whose file cannot even be stat'ed: a path component is a regular file (ENOTDIR).  The save
            # cannot succeed; it must fail cleanly
            plain = os.path.join(wd, "plain.bin")
            if not os.path.exists(plain):
                with open(plain, "wb") as f:
                    f.write(b"PLAIN-FILE")
            # (or the location holds a NUL byte: the operating system is not even asked, Python raises ValueError)
            t = ir.ExternalTensor("plain.bin/inner.bin" if sp["seed"] % 2 else "a\x00b.bin", 0, len(data), ir.DataType.UINT8, shape=ir.Shape([len(data)]), name=f"w{i}", base_dir=wd)
        elif kind == 3:
            inner = ir.Tensor(arr, name=f"w{i}")
            t = ir.LazyTensor(lambda inner=inner: inner, ir.DataType.UINT8, ir.Shape([len(data)]), name=f"w{i}")
        else:
            t = _chunk_tensor(ir, arr, i, inj_ref)
            chunk_tensors.append(i)
        values.append(ir.Value(name=f"w{i}", const_value=t))
    x = ir.Value(name="x", type=ir.TensorType(ir.DataType.FLOAT), shape=ir.Shape([1]))
    n = ir.Node("", "Identity", [x], num_outputs=1, name="n")
    n.outputs[0].name = "y"
    g = ir.Graph([x], [n.outputs[0]], nodes=[n], initializers=values, name="main", opset_imports={"": 20})
    return ir.Model(g, ir_version=10), dict(dest=dest, dest_rel=dest_rel, ext_same=ext_same, values=values, chunk=chunk_tensors)


def _chunk_tensor(ir, arr, j, inj_ref):
    class ChunkTensor(ir.Tensor):
        """Writes itself in two chunks with an effect point in between (mid-tensor crash point)."""

        def tofile(self, file):
            inj = inj_ref[0]
            data = self.tobytes()
            h = len(data) // 2
            if inj is not None:
                inj.point(f"tensor{j}.start")
            file.write(data[:h])
            if inj is not None:
                inj.point(f"tensor{j}.mid")
            file.write(data[h:])
            if inj is not None:
                inj.point(f"tensor{j}.end")

    return ChunkTensor(arr, name=f"w{j}")


def listing(wd):
    out = {}
    for dp, dn, fn in os.walk(wd):
        for d in dn:
            out[os.path.relpath(os.path.join(dp, d), wd) + "/"] = None
        for f in fn:
            p = os.path.join(dp, f)
            try:
                out[os.path.relpath(p, wd)] = open(p, "rb").read()
            except OSError:
                out[os.path.relpath(p, wd)] = b"<unreadable>"
    return out


def do_save(case, model, wd, inj):
    import onnx_ir as ir

    cb = None
    if case.get("callback"):
        def cb(t, info):
            if inj is not None:
                inj.point(f"callback{info.index}")

    ir.save(model, os.path.join(wd, "model.onnx"), external_data=case["dest"], size_threshold_bytes=case["threshold"],
            max_shard_size_bytes=case["shard"], max_workers=case["workers"], callback=cb)


def execute(case):
    from vlib import faultfs

    try:
        _ = case["tensors"][0]["kind"], case["pre"], case["dest"]
        if not (case["shard"] is None or case["shard"] > 0) or not (case["workers"] is None or case["workers"] > 0) or case["threshold"] < 0:
            raise KeyError
        if any(sp["size"] < 0 for sp in case["tensors"]):
            raise KeyError
    except (KeyError, TypeError, IndexError):
        return dict(failures=[], nontrivial=False, classes=["malformed"], evals=0)
    root = os.path.realpath(tempfile.mkdtemp(prefix="verif_c08_"))
    fails = []
    keys = []
    classes = set()
    evals = 0
    try:
        # ---- reference (uninjected) run -----------------------------------------------------------
        inj_ref = [None]
        wd = os.path.join(root, "ref")
        os.makedirs(wd)
        model, info = setup(case, wd, inj_ref)
        before = listing(wd)
        ids_before = [id(v.const_value) for v in info["values"]]
        ref_exc = None
        with faultfs.Injector() as inj:
            inj_ref[0] = inj
            try:
                do_save(case, model, wd, inj)
            except Exception as e:
                ref_exc = e
        labels = list(inj.labels)
        after_ok = listing(wd)
        sharded = case["shard"] is not None
        dest_rel = info["dest_rel"]
        pre_files = {k: v for k, v in before.items() if v is not None}
        if ref_exc is not None:
            classes.add(f"reference_raised_{type(ref_exc).__name__}")
            unreadable = any(sp["kind"] == 5 for sp in case["tensors"])
            if not isinstance(ref_exc, FileExistsError) and not (unreadable and isinstance(ref_exc, (OSError, ValueError))):
                fails.append((f"uninjected-save-raised/{type(ref_exc).__name__}", f"save without any fault raised {type(ref_exc).__name__}: {ref_exc}"[:300]))
            # (single-file saves only: a failed sharded save may leave completed shard files, which the statement does not cover)
            leftovers = sorted(set(after_ok) - set(before)) if case["shard"] is None else []
            if leftovers:
                fails.append((f"temporary-left-behind/failed-save/{type(ref_exc).__name__}", f"save raised {type(ref_exc).__name__} and left {leftovers} behind"))
            # a refused sharded save must not have touched anything
            for k, v in pre_files.items():
                if after_ok.get(k) != v:
                    fails.append(("preexisting-file-changed/refused-save", f"{k} changed although the save was refused"))
            if [id(v.const_value) for v in info["values"]] != ids_before:
                fails.append(("const-value-replaced/refused-save", "model holds different tensor objects after a refused save"))
            return dict(failures=_dd(fails), nontrivial=False, classes=sorted(classes), evals=1)
        # success clauses
        if sharded:
            for k, v in pre_files.items():
                if after_ok.get(k) != v:
                    fails.append(("preexisting-file-changed/sharded-success", f"sharded save changed pre-existing file {k}"))
        new_dest = after_ok.get(dest_rel)
        old_dest = before.get(dest_rel)
        replaced = (not sharded) and new_dest is not None and dest_rel in before
        for t, data in info["ext_same"]:
            if replaced and t.valid() and len(data) > case["threshold"]:
                pass  # the statement only constrains the other direction
            if not t.valid() and not replaced:
                fails.append(("invalidated-without-replacement", f"external tensor {t.name} was invalidated although its backing file {dest_rel} was not replaced"))
        for v in info["values"]:
            t = v.const_value
            if hasattr(t, "valid") and not t.valid():
                if not (replaced and os.path.realpath(t.path) == os.path.realpath(info["dest"])):
                    fails.append(("invalidated-without-replacement", f"external tensor {t.name} ({t.location}) was invalidated but its file was not replaced"))
        if [id(v.const_value) for v in info["values"]] != ids_before:
            fails.append(("const-value-replaced/success", "model holds different tensor objects after save"))
        if case["workers"] and case["workers"] > 1:
            points = [i for i, l in enumerate(labels) if l.startswith("tensor")]
            classes.add("workers>1")
        else:
            points = list(range(len(labels)))
        replace_idx = [i for i, l in enumerate(labels) if l == "os.replace"]
        first_write = next((i for i, l in enumerate(labels) if l.startswith("open(w") or l.startswith("tensor")), 0)
        if sharded:
            classes.add("sharded")
        if old_dest is not None:
            classes.add("destination_preexists")
        # ---- enumerate every point, both modes -----------------------------------------------------------
        for k in points:
            label = labels[k]
            for mode in ("exc", "kbd", "die"):
                wdk = os.path.join(root, f"p{k}{mode}")
                os.makedirs(wdk)
                inj_k = [None]
                m2, info2 = setup(case, wdk, inj_k)
                before2 = listing(wdk)
                ids2 = [id(v.const_value) for v in info2["values"]]
                target = k
                if case["workers"] and case["workers"] > 1:
                    target = None  # tensor-bound: resolved by label below
                evals += 1
                raised = None
                if mode in ("exc", "kbd"):
                    with faultfs.Injector(target=target, mode=mode) as inj2:
                        if target is None:
                            _bind_label(inj2, label)
                        inj_k[0] = inj2
                        try:
                            do_save(case, m2, wdk, inj2)
                        except BaseException as e:
                            raised = e
                    fired = inj2.fired
                else:
                    pid = os.fork()
                    if pid == 0:
                        try:
                            with faultfs.Injector(target=target, mode="die") as inj2:
                                if target is None:
                                    _bind_label(inj2, label)
                                inj_k[0] = inj2
                                do_save(case, m2, wdk, inj2)
                        finally:
                            os._exit(0)
                    _, status = os.waitpid(pid, 0)
                    fired = label if os.WEXITSTATUS(status) == 9 else None
                after2 = listing(wdk)
                if fired is None:
                    shutil.rmtree(wdk, ignore_errors=True)
                    continue  # schedule took another path (2 workers): nothing injected
                d_old, d_new = before2.get(dest_rel), after_ok.get(dest_rel)
                d_now = after2.get(dest_rel)
                site = label.split("(")[0].rstrip("0123456789")
                before_rename = (not replace_idx) or k <= replace_idx[0]
                interesting = old_dest is not None and first_write <= k and before_rename
                if interesting:
                    keys.append(f"{k}|{mode}|{label}")
                if sharded:
                    for kf, vf in before2.items():
                        if vf is not None and after2.get(kf) != vf:
                            fails.append((f"preexisting-file-changed/sharded/{mode}@{site}", f"fault ({mode}) at point #{k} {label}: pre-existing file {kf} changed"))
                else:
                    if d_now != d_old and d_now != d_new:
                        fails.append((f"destination-mixture/{mode}@{site}", f"fault ({mode}) at point #{k} {label}: destination holds neither the previous ({None if d_old is None else len(d_old)} B) nor the complete new bytes ({None if d_new is None else len(d_new)} B): {None if d_now is None else len(d_now)} B"))
                    for kf, vf in before2.items():
                        if vf is not None and kf != dest_rel and after2.get(kf) != vf:
                            fails.append((f"other-file-changed/{mode}@{site}", f"fault at #{k} {label}: unrelated pre-existing file {kf} changed"))
                if mode in ("exc", "kbd"):
                    if raised is None:
                        # the fault was absorbed (e.g. a fallback path): then the save must be a complete, clean one
                        if after2 != after_ok:
                            bad = sorted(kf for kf in set(after2) | set(after_ok) if after2.get(kf) != after_ok.get(kf))
                            fails.append((f"fault-swallowed-incomplete-save@{site}", f"injected {mode} at point #{k} {label} did not reach the caller, yet the directory differs from a successful save in {bad[:4]}"))
                    if raised is not None and not sharded and before_rename:
                        if d_now != d_old:
                            fails.append((f"destination-changed-on-failure@{site}", f"OSError at #{k} {label} (before/at the rename) but the destination changed"))
                        leftovers = sorted(set(after2) - set(before2))
                        if leftovers:
                            fails.append((f"temporary-left-behind@{site}", f"OSError at #{k} {label}: {leftovers} remain after the failed save"))
                        for t, data in info2["ext_same"]:
                            try:
                                if not t.valid() or bytes(t.tobytes()) != data:
                                    fails.append((f"external-tensor-damaged-on-failure@{site}", f"OSError at #{k} {label}: external tensor {t.name} reading from the destination is invalid or returns different bytes"))
                            except Exception as e:
                                fails.append((f"external-tensor-damaged-on-failure@{site}", f"OSError at #{k} {label}: reading {t.name} raised {type(e).__name__}: {e}"[:250]))
                    if [id(v.const_value) for v in info2["values"]] != ids2:
                        fails.append((f"const-value-replaced/failure@{site}", f"fault at #{k} {label}: model holds different tensor objects afterwards"))
                for t, _ in info2["ext_same"]:
                    try:
                        t.release()
                    except Exception:
                        pass
                shutil.rmtree(wdk, ignore_errors=True)
                if len(fails) > 6:
                    break
            if len(fails) > 6:
                break
        # ---- second faults on the recovery path ---------------------------------------------------------------
        # A first file-system fault with another errno (cross-device rename, busy target) may send the writer down a
        # fallback / clean-up path with effect points of its own; every one of those is hit too (exception and crash).
        if not sharded and old_dest is not None and not (case["workers"] and case["workers"] > 1) and len(fails) <= 6:
            import errno as _errno

            for k in points:
                label = labels[k]
                if label.startswith(("tensor", "callback")):
                    continue
                for eno in (_errno.EXDEV, _errno.EBUSY, _errno.EACCES):
                    tail, out1 = _run_injected(case, root, f"q{k}e{eno}", dict(target=k, mode="exc", errno_=eno, second="count"))
                    evals += 1
                    if out1 is None:
                        continue
                    fails.extend(_judge_pair(out1, dest_rel, after_ok, f"{_errno.errorcode[eno]}@{label}", "none", info))
                    for j, tl in enumerate(tail):
                        for mode2 in ("exc", "die"):
                            _, out2 = _run_injected(case, root, f"q{k}e{eno}t{j}{mode2}", dict(target=k, mode="exc", errno_=eno, second=(j, mode2)), fork=(mode2 == "die"))
                            evals += 1
                            if out2 is None:
                                continue
                            keys.append(f"{k}|{eno}|{j}|{mode2}")
                            classes.add("second_fault_on_recovery_path")
                            fails.extend(_judge_pair(out2, dest_rel, after_ok, f"{_errno.errorcode[eno]}@{label.split('(')[0]}", f"{mode2}@{tl.split('(')[0].rstrip('0123456789')}", info))
                    if len(fails) > 6:
                        break
                if len(fails) > 6:
                    break
        # ---- a fault that is not a file-system fault: the caller still holds an array view of a tensor that reads from
        # the destination, so its mapping cannot be closed (BufferError) when the file is about to be replaced
        if not sharded and info["ext_same"] and case.get("hold") is not None and len(fails) <= 6:
            wdh = os.path.join(root, "hold")
            os.makedirs(wdh)
            inj_h = [None]
            m3, info3 = setup(case, wdh, inj_h)
            th, _ = info3["ext_same"][case["hold"] % len(info3["ext_same"])]
            view = th.numpy()
            before3 = listing(wdh)
            raised = None
            evals += 1
            try:
                do_save(case, m3, wdh, None)
            except Exception as e:
                raised = e
            after3 = listing(wdh)
            classes.add("array_view_of_overwritten_tensor_held:" + ("save_raised" if raised is not None else "save_succeeded"))
            keys.append("hold")
            if raised is None:
                if after3 != after_ok:
                    bad = sorted(kf for kf in set(after3) | set(after_ok) if after3.get(kf) != after_ok.get(kf))
                    fails.append(("held-view/incomplete-save", f"save with a held array view returned, yet the directory differs from a successful save in {bad[:4]}"))
            else:
                kind_ = type(raised).__name__
                if after3.get(dest_rel) != before3.get(dest_rel):
                    fails.append((f"held-view/destination-changed-on-failure/{kind_}", f"save raised {kind_} (held array view of {th.name}) but the destination was replaced"))
                leftovers = sorted(set(after3) - set(before3))
                if leftovers:
                    fails.append((f"held-view/temporary-left-behind/{kind_}", f"save raised {kind_} (held array view): {leftovers} remain"))
                for t, data in info3["ext_same"]:
                    try:
                        if not t.valid() or bytes(t.tobytes()) != data:
                            fails.append((f"held-view/external-tensor-damaged-on-failure/{kind_}", f"save raised {kind_}: external tensor {t.name} reading from the destination is invalid or returns different bytes"))
                    except Exception as e:
                        fails.append((f"held-view/external-tensor-damaged-on-failure/{kind_}", f"save raised {kind_}: reading {t.name} raised {type(e).__name__}: {e}"[:250]))
            del view
            for t, _ in info3["ext_same"]:
                try:
                    t.release()
                except Exception:
                    pass
        classes.add(f"points={min(len(points) // 10 * 10, 40)}+")
    finally:
        shutil.rmtree(root, ignore_errors=True)
    return dict(failures=_dd(fails), nontrivial=bool(keys), nontrivial_keys=[f"{hash(str(case)) & 0xffffffff}|{k}" for k in keys], classes=sorted(classes), evals=max(evals, 1))


def _run_injected(case, root, tag, inj_kwargs, fork=False):
    """One injected save in a fresh directory. Returns (tail labels, dict(before, after, raised, ext_same)) or (.., None)
    when the first fault never fired."""
    from vlib import faultfs

    wdk = os.path.join(root, tag)
    os.makedirs(wdk)
    inj_k = [None]
    try:
        m2, info2 = setup(case, wdk, inj_k)
        before2 = listing(wdk)
        raised = None
        tail = []
        if not fork:
            with faultfs.Injector(**inj_kwargs) as inj2:
                inj_k[0] = inj2
                try:
                    do_save(case, m2, wdk, inj2)
                except BaseException as e:  # noqa: BLE001
                    raised = e
            fired = inj2.fired
            tail = list(inj2.tail_labels)
            if inj_kwargs.get("second") not in (None, "count") and inj2.second_fired is None:
                fired = None
        else:
            pid = os.fork()
            if pid == 0:
                try:
                    with faultfs.Injector(**inj_kwargs) as inj2:
                        inj_k[0] = inj2
                        try:
                            do_save(case, m2, wdk, inj2)
                        except BaseException:  # noqa: BLE001
                            pass
                finally:
                    os._exit(0)
            _, status = os.waitpid(pid, 0)
            fired = "x" if os.WEXITSTATUS(status) == 9 else None
        if fired is None:
            return tail, None
        after2 = listing(wdk)
        ext_ok = True
        if not fork:
            for t, data in info2["ext_same"]:
                try:
                    if not t.valid() or bytes(t.tobytes()) != data:
                        ext_ok = False
                except Exception:
                    ext_ok = False
        for t, _ in info2["ext_same"]:
            try:
                t.release()
            except Exception:
                pass
        return tail, dict(before=before2, after=after2, raised=raised, ext_ok=ext_ok, died=fork)
    finally:
        shutil.rmtree(wdk, ignore_errors=True)


def _judge_pair(out, dest_rel, after_ok, first, second, info):
    """Clauses that hold however many faults hit: the destination is the old or the complete new file, other
    pre-existing files are untouched, and - when an exception reached the caller with the old file in place -
    external tensors reading from it still work."""
    fails = []
    d_old, d_new, d_now = out["before"].get(dest_rel), after_ok.get(dest_rel), out["after"].get(dest_rel)
    if d_now != d_old and d_now != d_new:
        fails.append((f"destination-mixture/{first}+{second}", f"first fault {first}, then {second}: destination holds neither the previous ({None if d_old is None else len(d_old)} B) nor the complete new bytes ({None if d_new is None else len(d_new)} B): {None if d_now is None else len(d_now)} B"))
    for kf, vf in out["before"].items():
        if vf is not None and kf != dest_rel and out["after"].get(kf) != vf:
            fails.append((f"other-file-changed/{first}+{second}", f"first fault {first}, then {second}: unrelated pre-existing file {kf} changed"))
    if not out["died"] and out["raised"] is not None and d_now == d_old and not out["ext_ok"]:
        fails.append((f"external-tensor-damaged-on-failure/{first}+{second}", f"first fault {first}, then {second}: the old file is in place but external tensors reading from it are invalid or return other bytes"))
    if not out["died"] and out["raised"] is None and second == "none" and out["after"] != after_ok:
        fails.append((f"fault-swallowed-incomplete-save/{first}", f"fault {first} did not reach the caller, yet the directory differs from a successful save"))
    return fails


def _bind_label(inj, label):
    """Tensor-bound injection (schedule independent): fire at the effect point with this label."""
    orig = inj.point

    def point(lbl):
        idx = len(inj.labels)
        inj.labels.append(lbl)
        if lbl == label and inj.fired is None:
            inj.fired = lbl
            if inj.mode == "die":
                os._exit(9)
            from vlib.faultfs import Injected

            raise Injected(inj.errno, f"injected fault at {lbl}")

    inj.point = point


def _dd(fails):
    seen, out = set(), []
    for b, m in fails:
        if b not in seen:
            seen.add(b)
            out.append((b, m))
    return out


def selftest():
    from vlib import faultfs

    faultfs.selftest()

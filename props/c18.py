"""C18 - region extraction and capture analysis are exact."""

from __future__ import annotations

import os

ID = "C18"
LEVEL = "exploration"
TECHNIQUE = (
    "property-based testing against a brute-force reference and by execution: generated runnable models with nested "
    "bodies x generated/enumerated boundary cuts (inputs/outputs by object or by name, bounded, unbounded, "
    "over-specified); the extracted graph is compared with an independently written backward closure (node list in "
    "original order, initializers, object disjointness, raise-iff-uncovered) and executed with onnxruntime on the "
    "source's boundary values; analyze_implicit_usage is compared with a brute-force scope computation"
)
LEVEL_TEXT = (
    "Generated exploration of models x cuts. For models with few candidate values all single-output cuts with every "
    "subset of <=2 inputs are enumerated in the thorough tier; otherwise cuts are drawn by Hypothesis. The execution "
    "oracle uses the same engine for source and extract, so no tolerance is needed."
)
TRUSTED = "harness closure / scope computations (independent of onnx_ir helpers), onnxruntime CPU, onnx shape inference (types of boundary values)"
RULE = (
    "case = model tape (vlib/rmodel.py) + indices choosing boundary outputs (1-2) and inputs (0-3) among the values of the "
    "main graph + by-name flags; rmodel version 7 nests control flow three levels deep (every second such model with GRAPHS attributes). Non-trivial = the region has >=2 nodes and cuts through the interior (an intermediate "
    "value is an input), or a nested body captures a value across the boundary. distinct = case JSON."
)
ASSUMPTIONS = [
    "initializers passed as boundary inputs may appear both as input and as initializer of the extract (accepted)",
    "string-typed boundary values are not used as inputs of the execution oracle",
]
BUDGET = {"quick": (16, 1800), "thorough": (16, 12000)}


def strategy(tier, phase):
    from hypothesis import strategies as st

    from vlib import rmodel

    return st.fixed_dictionaries({"gen": st.sampled_from([2, 3, 4, 4, 5, 7, 7]), "tape": rmodel.tape_strategy(), "outs": st.lists(st.integers(0, 60), min_size=1, max_size=2),
                                  "ins": st.lists(st.integers(0, 60), min_size=0, max_size=3), "byname": st.integers(0, 3), "target": st.integers(0, 6), "annot": st.one_of(st.just([]), st.lists(st.tuples(st.integers(0, 40), st.integers(0, 7)).map(list), min_size=1, max_size=3)), "mode": st.integers(0, 3), "gattr": st.integers(0, 3),
                                  "refg": st.sampled_from([False, False, True]), "rereg": st.sampled_from([0, 0, 1, 2, 3])})


def nested_graphs(node):
    import onnx_ir as ir

    out = []
    for a in node.attributes.values():
        if a.is_ref():
            continue
        if a.type == ir.AttributeType.GRAPH:
            out.append(a.value)
        elif a.type == ir.AttributeType.GRAPHS:
            out.extend(a.value)
    return out


def deep_nodes(g):
    for n in g:
        yield n
        for sg in nested_graphs(n):
            yield from deep_nodes(sg)


def defined_in(v, g):
    """Is value v defined by graph g (input, initializer or output of one of its nodes)?"""
    p = v.producer()
    if p is not None:
        return p.graph is g
    return any(v is x for x in g.inputs) or any(v is x for x in g.initializers.values())


def closure(g, inputs, outputs):
    """Brute-force backward closure. Returns (nodes in original order, needed initializers, uncovered values)."""
    in_ids = {id(v) for v in inputs}
    visited = set(in_ids)
    needed, inits, uncovered, outer = {}, {}, [], []
    stack = list(outputs)
    while stack:
        v = stack.pop()
        if id(v) in visited:
            continue
        visited.add(id(v))
        p = v.producer()
        if p is None:
            if v.is_initializer():
                inits[id(v)] = v
            else:
                uncovered.append(v)
            continue
        if p.graph is not g:
            uncovered.append(v)  # produced in an enclosing graph: cannot be covered by this graph's values
            continue
        if id(p) in needed:
            continue
        needed[id(p)] = p
        for i in p.inputs:
            if i is not None:
                stack.append(i)
        for sg in nested_graphs(p):
            for m in deep_nodes(sg):
                for i in m.inputs:
                    if i is not None and defined_in(i, g):
                        stack.append(i)
                    elif i is not None and not _inside(i, sg) and _outer(i, g) and not (i.is_initializer() and any(i is x for x in g.initializers.values())):
                        # (an initializer of a graph ENCLOSING the source that is captured only inside a nested body is an outer
                        # value like any other: the source cannot supply it)
                        outer.append(i)
    uncovered.extend(outer)
    order = [n for n in g if id(n) in needed]
    return order, list(inits.values()), uncovered


def _inside(v, sg):
    """Is v defined in sg or in a graph nested in it?"""
    if defined_in(v, sg):
        return True
    return any(_inside(v, s2) for n in sg for s2 in nested_graphs(n))


def _inside_root(v, root):
    return _inside(v, root)


def _outer(v, g):
    """Is v defined outside g (neither in g nor nested in g)?"""
    return not _inside(v, g)


def deep_nodes_of_node(n):
    out = []
    for sg in nested_graphs(n):
        out.extend(deep_nodes(sg))
    return out


def brute_implicit(g):
    """{id(subgraph): (subgraph, set(id(value)))}: values used inside each nested graph or deeper but defined outside it."""
    out = {}

    def walk(graph):
        for n in graph:
            for sg in nested_graphs(n):
                vals = out.setdefault(id(sg), (sg, set()))[1]
                for m in deep_nodes(sg):
                    for i in m.inputs:
                        if i is not None and not _inside(i, sg):
                            vals.add(id(i))
                walk(sg)

    walk(g)
    return out


def execute(case):
    import numpy as np
    import onnx

    import onnx_ir as ir
    from vlib import evalmodel, rmodel

    try:
        proto, features = rmodel.build(case["tape"], case.get("gen", 1))
        outs_i, ins_i = case["outs"], case["ins"]
        if not outs_i:
            raise KeyError
    except (KeyError, TypeError):
        return dict(failures=[], nontrivial=False, classes=["malformed"])
    try:
        onnx.checker.check_model(proto, full_check=True)
        inferred = onnx.shape_inference.infer_shapes(proto)
    except Exception:
        return dict(failures=[], nontrivial=False, classes=["seed_invalid"])
    model = ir.from_proto(inferred)
    fails = []
    classes = []
    graphs_attr = False
    if case.get("gattr", 0) % 4 == 1 or (case.get("gen", 1) >= 7 and case.get("gattr", 0) % 2 == 1):  # (three-level models: every second one)
        # turn every If into a node carrying its branches in ONE attribute of type GRAPHS (no standard op has one);
        # structure and capture analysis are checked as usual, the execution oracle is skipped for these
        for n in list(deep_nodes(model.graph)):
            if n.op_type == "If" and "then_branch" in n.attributes and "else_branch" in n.attributes:
                tb = n.attributes.pop("then_branch").as_graph()
                eb = n.attributes.pop("else_branch").as_graph()
                n.attributes.add(ir.Attr("branches", ir.AttributeType.GRAPHS, [tb, eb]))
                n.op_type, n.domain = "MultiBranch", "local"
                graphs_attr = True
        if graphs_attr:
            classes.append("graphs_attribute")
    ref_graph_attr = False
    if case.get("refg") and model.functions:
        # a node of a function body that takes one of its graph-typed attributes from the function's attribute parameters
        # (a reference attribute of type GRAPH has no graph of its own: there is nothing to walk)
        fs_ = list(model.functions.values())
        f_ = fs_[case["outs"][0] % len(fs_)]
        body_nodes = list(deep_nodes(f_.graph))
        if body_nodes:
            body_nodes[case["outs"][-1] % len(body_nodes)].attributes.add(ir.RefAttr("c18_body", "c18_body_param", ir.AttributeType.GRAPH))
            ref_graph_attr = True
            graphs_attr = True  # (the execution oracle does not know the attribute: skipped)
            classes.append("reference_attribute_of_graph_type")
    # ---- capture analysis on the whole graph and on every nested graph taken as root ----------------------------
    from onnx_ir import analysis

    roots = [model.graph] + [sg for n in deep_nodes(model.graph) for sg in nested_graphs(n) if any(nested_graphs(m) for m in sg)]
    roots += [f.graph for f in model.functions.values() if any(nested_graphs(m) for m in f) or ref_graph_attr]
    for ri, root in enumerate(roots):
        tag = "" if ri == 0 else "nested-root/"
        try:
            got = analysis.analyze_implicit_usage(root)
            exp = brute_implicit(root)
            got_n = {id(sg): {id(v) for v in vals} for sg, vals in got.items()}
            for sid, (sg, vals) in exp.items():
                if sid not in got_n:
                    fails.append((f"implicit-usage/{tag}subgraph-missing", f"nested graph {sg.name!r} is not reported by analyze_implicit_usage({root.name!r})"))
                elif got_n[sid] != vals:
                    names = lambda ids: sorted(str(v.name) for v in _values_by_id(model.graph, ids))
                    fails.append((f"implicit-usage/{tag}wrong-set", f"analyze_implicit_usage({root.name!r}): nested graph {sg.name!r}: reported {names(got_n[sid])} expected {names(vals)}"))
            if set(got_n) - set(exp):
                fails.append((f"implicit-usage/{tag}unknown-subgraph", "analyze_implicit_usage reports a graph that is not nested in the analysed graph"))
            if exp and ri == 0:
                classes.append("nested_graphs")
            if ri > 0:
                classes.append("analysis_nested_root")
                if any(not _inside_root(v, root) for _, (sg, vals) in exp.items() for v in _values_by_id(model.graph, vals)):
                    classes.append("analysis_nested_root_outer_capture")
        except Exception as e:
            fails.append((f"implicit-usage/{tag}raised/{type(e).__name__}", f"analyze_implicit_usage({root.name!r}) raised {type(e).__name__}: {str(e)[:120]}"))
    # ---- capture analysis with ONE body object placed in two different scopes ---------------------------------
    if case.get("gattr", 0) % 4 in (2, 3) and not fails:
        try:
            m2 = ir.from_proto(inferred)
            tops = [n for n in m2.graph if n.op_type == "If" and "then_branch" in n.attributes]
            hosts = [sg for n in m2.graph for sg in nested_graphs(n)]
            if tops and hosts:
                a_ = tops[case["outs"][0] % len(tops)]
                hosts = [sg for sg in hosts if not any(sg is x for x in nested_graphs(a_))]
                if hosts:
                    host = hosts[(case["outs"][-1] + case.get("gattr", 0)) % len(hosts)]
                    shared = a_.attributes["then_branch"].as_graph()
                    # a second If, inside another node's body, whose then-branch is the very same Graph object
                    b_ = ir.Node("", "If", [a_.inputs[0]], [ir.AttrGraph("then_branch", shared), ir.AttrGraph("else_branch", a_.attributes["else_branch"].as_graph())],
                                 num_outputs=1, name="c18_second_if")
                    b_.outputs[0].name = "c18_second_if_out"
                    host.append(b_)
                    got = analysis.analyze_implicit_usage(m2.graph)
                    exp = brute_implicit(m2.graph)
                    got_n = {id(sg): {id(v) for v in vals} for sg, vals in got.items()}
                    classes.append("body_shared_between_scopes")
                    for sid, (sg, vals) in exp.items():
                        if got_n.get(sid) != vals:
                            names = lambda ids: sorted(str(v.name) for v in _values_by_id(m2.graph, ids))
                            fails.append(("implicit-usage/shared-body/wrong-set", f"one graph object is the then-branch of {a_.name!r} (main graph) and of {b_.name!r} (nested): nested graph {sg.name!r}: reported {names(got_n.get(sid, set()))} expected {names(vals)}"))
                            break
        except Exception as e:
            fails.append((f"implicit-usage/shared-body/raised/{type(e).__name__}", f"analyze_implicit_usage with a shared body raised {type(e).__name__}: {str(e)[:120]}"))
    # ---- extraction ---------------------------------------------------------------------------------------
    g = model.graph
    target = case.get("target", 0) % 7
    graph_like = g
    main = True
    view_nodes = None
    if target == 6:
        # a view that lists the nodes in ANOTHER valid order than the graph that owns them (Kahn's algorithm taking the
        # last ready node first): "original order" is the order of the object extract() is given
        members = list(g)
        ids = {id(n) for n in members}
        deps = {id(n): {id(i.producer()) for m in [n] + [x for sg in nested_graphs(n) for x in deep_nodes(sg)] for i in m.inputs
                        if i is not None and i.producer() is not None and id(i.producer()) in ids and i.producer() is not n} for n in members}
        done, view_nodes = set(), []
        while len(view_nodes) < len(members):
            ready = [n for n in members if id(n) not in done and deps[id(n)] <= done]
            if not ready:
                view_nodes = None
                break
            pick = ready[-1]
            view_nodes.append(pick)
            done.add(id(pick))
        if view_nodes is not None and any(a is not b for a, b in zip(view_nodes, members)):
            graph_like = ir.GraphView(list(g.inputs), list(g.outputs), nodes=view_nodes, initializers=list(g.initializers.values()),
                                      opset_imports=dict(g.opset_imports), name=g.name)
            classes.append("GraphView_in_another_order")
        else:
            view_nodes = None
    if target == 3:
        # (a view need not declare the values its nodes consume: half of the views list no inputs at all)
        bare = case["outs"][-1] % 2 == 1
        graph_like = ir.GraphView([] if bare else list(g.inputs), list(g.outputs), nodes=list(g), initializers=list(g.initializers.values()),
                                  opset_imports=dict(g.opset_imports), name=g.name)
        classes.append("GraphView_without_declared_inputs" if bare else "GraphView")
    elif target == 4 and model.functions:
        fs = list(model.functions.values())
        graph_like = fs[case["outs"][0] % len(fs)]
        g = graph_like.graph
        main = False
        classes.append("Function")
    elif target == 5:
        bodies = [sg for n in deep_nodes(g) for sg in nested_graphs(n) if len(sg) > 0]
        if bodies:
            graph_like = g = bodies[case["outs"][0] % len(bodies)]
            main = False
            classes.append("nested_body")
    if case.get("annot"):
        # device annotations on nodes of the source: they bind values by identity, so the extracted copy has to be re-bound
        try:
            cfg_a = model.add_device_configuration("c18_tp", num_devices=2)
            cfg_b = model.add_device_configuration("c18_pp", num_devices=2)
            members = [n for n in g if any(v is not None for v in list(n.inputs) + list(n.outputs))]
            for a_, b_ in case["annot"]:
                if not members:
                    break
                n_ = members[a_ % len(members)]
                ios = [v for v in list(n_.inputs) + list(n_.outputs) if v is not None and (v.shape is None or len(v.shape) >= 1)]
                if not ios:
                    continue
                first, second = (cfg_a, cfg_b) if b_ % 2 == 0 else (cfg_b, cfg_a)
                if b_ % 4 >= 2:
                    n_.set_pipeline_stage(second, b_ % 3)
                n_.shard(ios[b_ % len(ios)], configuration=first, axis=0, num_shards=2)
                if b_ % 4 < 2:
                    n_.set_pipeline_stage(second, b_ % 3)
            classes.append("device_annotations_in_source")
        except Exception:
            pass
    if case.get("rereg"):
        # the source has a history: its initializers were registered a second time (same objects, same names)
        for k_, w_ in enumerate(list(g.initializers.values())):
            if (k_ + case["rereg"]) % 2 == 0:
                if case["rereg"] % 3 == 0:
                    g.initializers[w_.name] = w_
                elif w_.const_value is not None:
                    g.register_initializer(w_)
                else:
                    g.initializers.add(w_)
        classes.append("initializers_registered_again")
    cand = [o for n in g for o in n.outputs if o.name] + [v for v in g.inputs]
    inter = [o for n in g for o in n.outputs if o.name]
    if not inter:
        return dict(failures=_dd(fails), nontrivial=False, classes=classes)
    outputs = []
    for i in outs_i:
        v = inter[i % len(inter)]
        if not any(v is x for x in outputs):
            outputs.append(v)
    pool_in = cand + list(g.initializers.values())
    inputs = []
    for i in ins_i:
        v = pool_in[i % len(pool_in)]
        if not any(v is x for x in inputs):
            inputs.append(v)
    def closure_(g_, i_, o_):
        order_, need_, unc_ = closure(g_, i_, o_)
        if view_nodes is not None:
            order_ = [n for n in view_nodes if any(n is x for x in order_)]
        return order_, need_, unc_

    order, need_inits, uncovered = closure_(g, inputs, outputs)
    mode = case.get("mode", 0) % 4
    if mode in (1, 2, 3) and uncovered:
        # complete the boundary so that it is bounded (1, 3) or misses exactly one required value (2)
        own = [v for v in uncovered if defined_in(v, g)]  # values of enclosing graphs cannot be passed as inputs
        add = own[1:] if mode == 2 else own
        for v in add:
            if not any(v is x for x in inputs):
                inputs.append(v)
        order, need_inits, uncovered = closure_(g, inputs, outputs)
        classes.append(["", "completed", "one_missing", "completed"][mode])
    if "GraphView_without_declared_inputs" in classes:
        # such a view knows a value only through its nodes: boundary inputs that no node of the view consumes or produces are
        # not its values (a name given for one of them is rightly "not found")
        kept = [v for v in inputs if v.producer() is not None or any(u.graph is g for u, _ in v.uses())]
        if len(kept) != len(inputs):
            inputs = kept
            order, need_inits, uncovered = closure_(g, inputs, outputs)
    byname = case.get("byname", 0)
    names_unique = len({v.name for v in cand + list(g.initializers.values())}) == len(cand) + len(g.initializers)
    arg_in = [v.name if (byname & 1 and names_unique) else v for v in inputs]
    arg_out = [v.name if (byname & 2 and names_unique) else v for v in outputs]
    exc = None
    ext = None
    try:
        ext = ir.convenience.extract(graph_like, arg_in, arg_out)
    except Exception as e:
        exc = e
    interior_cut = any(v.producer() is not None for v in inputs) and len(order) >= 2
    capture = any(defined_in(i, g) for n in order for sg in nested_graphs(n) for m in deep_nodes(sg) for i in m.inputs if i is not None)
    nontrivial = (interior_cut or capture) and len(order) >= 1
    if uncovered:
        classes.append("unbounded")
        if exc is None:
            fails.append(("unbounded-region-accepted", f"outputs {[v.name for v in outputs]} need {[v.name for v in uncovered]} (no producer, not an initializer, not among inputs {[v.name for v in inputs]}) but extract() returned a graph"))
        return dict(failures=_dd(fails), nontrivial=nontrivial, classes=classes + ["raised" if exc else "returned"])
    if exc is not None:
        root = exc
        while root.__cause__ is not None:
            root = root.__cause__
        fails.append((f"bounded-region-rejected/{type(root).__name__}", f"extract(inputs={[v.name for v in inputs]}, outputs={[v.name for v in outputs]}) raised {type(root).__name__}: {root}"[:400]))
        return dict(failures=_dd(fails), nontrivial=nontrivial, classes=classes + ["raised"])
    classes.append("returned")
    got_nodes = [(n.op_type, n.name, n.domain) for n in ext]
    exp_nodes = [(n.op_type, n.name, n.domain) for n in order]
    if got_nodes != exp_nodes:
        fails.append(("wrong-node-list", f"extract(inputs={[v.name for v in inputs]}, outputs={[v.name for v in outputs]}): nodes {got_nodes} expected (closure, original order) {exp_nodes}"[:600]))
    got_init = set(ext.initializers.keys())
    need = {v.name for v in need_inits}
    allowed = need | {v.name for v in inputs if v.is_initializer()}
    if not (need <= got_init <= allowed):
        fails.append(("wrong-initializers", f"extract: initializers {sorted(got_init)}; needed {sorted(need)}; additionally allowed {sorted(allowed - need)}"))
    # independence of the source
    src_ids = {id(x) for x in _all_objects(g)}
    shared = [type(x).__name__ for x in _all_objects(ext) if id(x) in src_ids]
    if shared:
        fails.append(("shares-objects-with-source", f"the extracted graph references {sorted(set(shared))} objects of the source"))
    # ---- execution oracle ---------------------------------------------------------------------------------------
    if not fails:
        try:
            boundary = [v for v in inputs if not v.is_initializer()] + outputs
            usable = all(v.type is not None and v.shape is not None and int(v.dtype) in (1, 7, 9) for v in boundary)
            region = {id(n) for n in order}
            coproduced = any(v.producer() is not None and id(v.producer()) in region for v in inputs)
            if coproduced:
                # a boundary input that is also an output of a retained multi-output node: the extract keeps both
                # definitions under one name; the in-memory graph is checked structurally above, serialising it for
                # an engine is outside the property
                classes.append("input_coproduced_by_region")
            bn_training = any(n.op_type == "BatchNormalization" and n.attributes.get_int("training_mode", 0) for n in order)
            if bn_training:
                # onnxruntime's training-mode BatchNormalization aliases its running mean/var inputs with its outputs;
                # its results depend on which values are graph outputs (engine artefact, see DESIGN.md C05)
                classes.append("bn_training_not_executed")
            if usable and order and not coproduced and main and not bn_training and not graphs_attr:
                src = onnx.ModelProto()
                src.CopyFrom(inferred)
                del src.graph.output[:]
                seen = set()
                for v in boundary:
                    if v.name in seen:
                        continue
                    seen.add(v.name)
                    src.graph.output.append(onnx.helper.make_tensor_value_info(v.name, int(v.dtype), list(v.shape.numpy())))
                feeds = evalmodel.input_sets(src, 2)
                base = evalmodel.run(src, feeds)
                names = [o.name for o in src.graph.output]
                em = ir.Model(ext, ir_version=10, functions=[f.clone() for f in model.functions.values()])
                for dom, ver in model.opset_imports.items():
                    em.opset_imports.setdefault(dom, ver)
                ep = ir.to_proto(em)
                init = {t.name for t in ep.graph.initializer}
                ein = [i.name for i in ep.graph.input if i.name not in init]
                eout = [o.name for o in ep.graph.output]
                for k, res in enumerate(base):
                    val = dict(zip(names, res))
                    got = evalmodel.run(ep, [[val[n] for n in ein]])[0]
                    for n_, a in zip(eout, got):
                        b = val[n_]
                        if not (np.asarray(a).dtype == np.asarray(b).dtype and np.array_equal(a, b, equal_nan=True)):
                            fails.append(("extract-computes-differently", f"output {n_} of the extract (inputs {ein}) differs from the source on input set {k}: {np.asarray(a).reshape(-1)[:4]} vs {np.asarray(b).reshape(-1)[:4]}"))
                            break
                classes.append("executed")
        except Exception as e:
            classes.append(f"execution_skipped_{type(e).__name__}")
            if os.environ.get("VERIF_DEBUG"):
                print("SKIP", type(e).__name__, str(e)[:500])
    return dict(failures=_dd(fails), nontrivial=nontrivial, classes=classes)


def _values_by_id(g, ids):
    out = []
    for n in deep_nodes(g):
        for v in list(n.inputs) + list(n.outputs):
            if v is not None and id(v) in ids and not any(v is x for x in out):
                out.append(v)
    for v in list(g.inputs) + list(g.initializers.values()):
        if id(v) in ids and not any(v is x for x in out):
            out.append(v)
    return out


def _all_objects(g):
    yield g
    for v in list(g.inputs) + list(g.outputs) + list(g.initializers.values()):
        yield v
    for n in g:
        yield n
        for v in list(n.inputs) + list(n.outputs):
            if v is not None:
                yield v
        for dc in n.device_configurations or ():  # annotations refer to values by identity
            for spec in dc.sharding_specs:
                if spec.value is not None:
                    yield spec.value
        for sg in nested_graphs(n):
            yield from _all_objects(sg)


def _dd(fails):
    seen, out = set(), []
    for b, m in fails:
        if b not in seen:
            seen.add(b)
            out.append((b, m))
    return out

#!/bin/bash
# Offline setup: verify the interpreter and packages the checks need; install hypothesis from the
# offline wheelhouse if it is missing.  Nothing is downloaded, nothing is compiled.
set -e
cd "$(dirname "$0")"
PY=/venv/bin/python
if ! $PY -c "import hypothesis" 2>/dev/null; then
  /venv/bin/pip install --no-index --find-links /opt/veriftools/wheels hypothesis
fi
# optional coverage-guided tier of C17 (thorough only): atheris into /verif/.deps (git-ignored); skipped if unavailable
if [ ! -d .deps/atheris ]; then
  /venv/bin/pip install -q --no-index --find-links /opt/veriftools/wheels --target .deps atheris 2>/dev/null || echo "note: atheris not installed; the C17 thorough tier runs without its libFuzzer part"
fi
$PY - <<'PYEOF'
import importlib, sys
for m in ["hypothesis", "onnx", "numpy", "ml_dtypes", "sympy"]:
    importlib.import_module(m)
sys.path.insert(0, "/repo/src")
import onnx_ir
print("setup ok: onnx_ir from", onnx_ir.__file__)
PYEOF
mkdir -p evidence replays

#!/venv/bin/python
"""Coverage-guided byte-level tier of C17 (atheris / libFuzzer), with the semantic oracle inside the target.

  PYTHONPATH=/verif/.deps:/verif:/repo/src tools/fuzz_c17.py <findings-dir> <corpus-dir> -runs=N -seed=S [libFuzzer flags]

TestOneInput(data): data is parsed as a serialized onnx.ModelProto (undecodable inputs are dropped at once - libFuzzer
learns the wire format from the seed corpus of generated valid protos); props.c17.check_proto then runs
ir.from_proto under the file-access monitor and judges the returned IR (C01 invariants, serialize/deserialize
fixpoint).  A failing input never crashes the process: it is written to <findings-dir>/<bucket-hash>_<n>.bin together
with its bucket, so the campaign continues behind a shallow finding (at most 5 inputs are kept per bucket); the parent
(props/c17.py: extra) turns the files into ordinary collector records, shrinks and triages them like any other case.
onnx_ir is instrumented for coverage; protobuf / numpy C code is not.
"""
import hashlib, json, os, sys

ROOT = os.path.dirname(os.path.dirname(os.path.abspath(__file__)))
sys.path.insert(0, ROOT)
sys.path.insert(0, os.environ.get("VERIF_REPO_SRC", "/repo/src"))
sys.path.insert(0, os.path.join(ROOT, ".deps"))

import atheris  # noqa: E402

findings_dir = sys.argv[1]
argv = [sys.argv[0]] + sys.argv[2:]
os.makedirs(findings_dir, exist_ok=True)

with atheris.instrument_imports(include=["onnx_ir"], enable_loader_override=False):
    import onnx_ir  # noqa: F401
    import onnx_ir.serde  # noqa: F401

import onnx  # noqa: E402

from props import c17  # noqa: E402

COUNTS = {}
STATS = {"execs": 0, "decoded": 0, "returned": 0, "raised": 0, "timeout": 0}


def TestOneInput(data):
    STATS["execs"] += 1
    if STATS["execs"] % 50 == 0:  # atexit handlers do not run under libFuzzer: keep the counters on disk
        with open(os.path.join(findings_dir, "stats.json"), "w") as f:
            json.dump(dict(STATS, buckets=COUNTS), f)
    mp = onnx.ModelProto()
    try:
        mp.ParseFromString(data)
    except Exception:
        return
    STATS["decoded"] += 1
    fails, model, stage = c17.check_proto(mp, "from_proto(fuzz)")
    if stage == "returned":
        STATS["returned"] += 1
    elif stage.startswith("raised"):
        STATS["raised"] += 1
    else:
        STATS["timeout"] += 1
    for bucket, msg in fails:
        n = COUNTS.get(bucket, 0)
        COUNTS[bucket] = n + 1
        if n < 5:
            h = hashlib.sha1(bucket.encode()).hexdigest()[:10]
            with open(os.path.join(findings_dir, f"{h}_{n}.bin"), "wb") as f:
                f.write(data)
            with open(os.path.join(findings_dir, f"{h}_{n}.json"), "w") as f:
                json.dump({"bucket": bucket, "message": msg[:400]}, f)


def main():
    atheris.Setup(argv, TestOneInput)
    try:
        atheris.Fuzz()
    finally:
        with open(os.path.join(findings_dir, "stats.json"), "w") as f:
            json.dump(dict(STATS, buckets=COUNTS), f)


if __name__ == "__main__":
    main()

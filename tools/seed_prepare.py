"""Prepare the scratch area of one sub-agent (seeded-change round) and print its prompt.

  tools/seed_prepare.py <ID> <tag>      e.g.  tools/seed_prepare.py C07 r3

Creates /tmp/seed/<ID>_<tag>/wt (a detached git worktree of /repo HEAD) and /tmp/seed/<ID>_<tag>/out with
property.json (the properties.jsonl entry and nothing else), and prints seeded/PROMPT.txt with the placeholders
filled in.  Nothing of /verif but the property text reaches the agent.
"""
import json, os, subprocess, sys

ROOT = os.path.dirname(os.path.dirname(os.path.abspath(__file__)))
pid, tag = sys.argv[1], sys.argv[2]
base = f'/tmp/seed/{pid}_{tag}'
wt, out = base + '/wt', base + '/out'
os.makedirs(out, exist_ok=True)
if not os.path.isdir(wt):
    subprocess.run(['git', '-C', '/repo', 'worktree', 'add', '-q', '--detach', wt, 'HEAD'], check=True)
prop = [json.loads(l) for l in open(os.path.join(ROOT, 'properties.jsonl')) if l.strip()]
prop = [p for p in prop if p['id'] == pid][0]
json.dump(prop, open(out + '/property.json', 'w'), indent=1)
txt = open(os.path.join(ROOT, 'seeded', 'PROMPT.txt')).read()
txt = txt.replace('__WT__', wt).replace('__OUT__', out).replace('__TITLE__', prop['title']).replace('__ID__', pid)
extra = os.environ.get('SEED_EXTRA', '')
print(txt + ('\n' + extra if extra else ''))

"""Print the markdown table of fix: commits of /repo (after the pinned base) with the check buckets they silenced
(from the fixed: lines of known_findings.txt).  Used for DESIGN.md section 4.1."""
import collections, os, re, subprocess

ROOT = os.path.dirname(os.path.dirname(os.path.abspath(__file__)))
BASE = 'ba80127'
subj = collections.OrderedDict()
for l in subprocess.run(['git', '-C', '/repo', 'log', '--reverse', '--format=%h %s', f'{BASE}..HEAD'], capture_output=True, text=True).stdout.splitlines():
    h, s = l.split(' ', 1)
    subj[h] = s
by = {}
for l in open(os.path.join(ROOT, 'known_findings.txt')):
    m = re.match(r'fixed: property=(C\d+) (\w+) .*\[bucket=(.*?) replay=', l)
    if m:
        by.setdefault(m.group(2), []).append((m.group(1), m.group(3)))
for h, s in subj.items():
    b = by.get(h, [])
    props = ' '.join(sorted({p for p, _ in b})) or '-'
    bk = ', '.join(f'`{p}:{k}`' for p, k in b[:4]) + (f' (+{len(b) - 4} more)' if len(b) > 4 else '')
    print(f"| `{h}` | {s[5:] if s.startswith('fix: ') else s} | {props} | {bk or '(re-found by the check; replay shared with the neighbouring commit)'} |")
print(f'\n{len(subj)} commits.')

"""Sensitivity runs: apply each deliberate property-breaking mutant (mutants/mutants.py) to a scratch
copy of /repo/src outside /repo and /verif, run the quick check of its property against the copy
(VERIF_REPO_SRC) and require exit 1 with a VIOLATION line.  The scratch copy is removed afterwards.

  tools/mutation_check.py [ID ...] [--name substr] [--scale X]
"""
import importlib.util, os, shutil, subprocess, sys, tempfile, time, difflib
ROOT = os.path.dirname(os.path.dirname(os.path.abspath(__file__)))
spec = importlib.util.spec_from_file_location('mutants', os.path.join(ROOT, 'mutants', 'mutants.py'))
mm = importlib.util.module_from_spec(spec); spec.loader.exec_module(mm)
args = sys.argv[1:]
name_filter = None; scale = None; ids = []
while args:
    a = args.pop(0)
    if a == '--name': name_filter = args.pop(0)
    elif a == '--scale': scale = args.pop(0)
    else: ids.append(a.upper())
results = []
for m in mm.MUTANTS:
    if ids and m['property'] not in ids: continue
    if name_filter and name_filter not in m['name']: continue
    scratch = tempfile.mkdtemp(prefix='verif_mut_')
    try:
        dst = os.path.join(scratch, 'src')
        shutil.copytree('/repo/src', dst, ignore=shutil.ignore_patterns('__pycache__', '*_test.py'))
        ok_apply = True
        diffs = []
        for (rel, old, new) in m['edits']:
            p = os.path.join(dst, rel)
            s = open(p).read()
            if s.count(old) != 1:
                print(f"MUTANT {m['name']}: pattern occurs {s.count(old)} times in {rel} - cannot apply"); ok_apply = False; break
            s2 = s.replace(old, new)
            diffs.append(''.join(difflib.unified_diff(s.splitlines(True), s2.splitlines(True), 'a/src/' + rel, 'b/src/' + rel)))
            open(p, 'w').write(s2)
        if not ok_apply:
            results.append((m, 'NOT-APPLIED', 0)); continue
        os.makedirs(os.path.join(ROOT, 'mutants', m['property']), exist_ok=True)
        open(os.path.join(ROOT, 'mutants', m['property'], m['name'] + '.diff'), 'w').write(''.join(diffs))
        env = dict(os.environ, VERIF_REPO_SRC=dst, VERIF_SHRINK_S='5', VERIF_NO_EVIDENCE='1')
        if scale: env['VERIF_SCALE'] = scale
        t0 = time.time()
        r = subprocess.run([os.path.join(ROOT, 'check'), m['property'], '--tier', 'quick'], capture_output=True, text=True, env=env, cwd=ROOT)
        viol = [l for l in r.stdout.splitlines() if l.startswith('VIOLATION')]
        status = 'KILLED' if (r.returncode == 1 and viol) else f'SURVIVED(rc={r.returncode})'
        results.append((m, status, time.time() - t0))
        det = [l.strip()[:160] for l in r.stdout.splitlines() if l.startswith('  bucket=')][:2]
        print(f"{status:16s} {m['property']} {m['name']} ({time.time()-t0:.0f}s) {det}")
        if r.returncode == 2:
            print(r.stdout[-800:])
    finally:
        shutil.rmtree(scratch, ignore_errors=True)
        # remove replay files written for the mutant
        rdir = os.path.join(ROOT, 'replays', m['property'])
        if os.path.isdir(rdir):
            for f in os.listdir(rdir):
                if f.startswith('violation_'):
                    os.remove(os.path.join(rdir, f))
if not ids and not name_filter:
    with open(os.path.join(ROOT, 'mutants', 'RESULTS.txt'), 'w') as f:
        f.write('# tools/mutation_check.py (quick tier, VERIF_SEED=%s): one line per mutant\n' % os.environ.get('VERIF_SEED', '1'))
        for m, st_, dt in results:
            f.write(f"{st_:16s} {m['property']} {m['name']}\n")
surv = [m['name'] for m, s, _ in results if s != 'KILLED']
print(f"{len(results) - len(surv)}/{len(results)} mutants killed; survivors: {surv}")
sys.exit(1 if surv else 0)

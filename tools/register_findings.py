"""Re-triage replays/<ID>/{open,fixed,violation}_*.json on the current tree and regenerate the
'fixed:' section of known_findings.txt (hand-written JSON 'known' lines are kept as they are).

  tools/register_findings.py C01 C06 ...
"""
import glob, importlib, json, os, re, subprocess, sys
ROOT = os.path.dirname(os.path.dirname(os.path.abspath(__file__)))
sys.path.insert(0, ROOT)
from vlib import runner
runner.setup_path()
KF = os.path.join(ROOT, 'known_findings.txt')
fix_map = json.load(open(os.path.join(ROOT, 'tools', 'fix_map.json')))
log = subprocess.run(['git', '-C', '/repo', 'log', '--format=%h\t%s'], capture_output=True, text=True).stdout
hash_by_subject = {l.split('\t', 1)[1]: l.split('\t', 1)[0] for l in log.splitlines() if '\t' in l}

def commit_for(pid, bucket, fname='', text=''):
    for m in fix_map:
        if m.get('replay_contains') and m['replay_contains'] not in fname and m['replay_contains'] not in text:
            continue
        if m['property'] == pid and re.search(m['pattern'], bucket):
            return hash_by_subject.get(m['subject'], '???????'), m['subject']
    return None, None

existing = open(KF).read().splitlines() if os.path.exists(KF) else []
keep = [l for l in existing if not l.startswith('fixed:')]
fixed_lines = [l for l in existing if l.startswith('fixed:')]
pids = [p.upper() for p in sys.argv[1:]]
fixed_lines = [l for l in fixed_lines if not any(f'property={p} ' in l for p in pids)]
for pid in pids:
    mods = glob.glob(os.path.join(ROOT, 'props', pid.lower() + '*.py'))
    mod = importlib.import_module('props.' + os.path.basename(mods[0])[:-3])
    for f in sorted(glob.glob(os.path.join(ROOT, 'replays', pid, '*.json'))):
        rec = json.load(open(f))
        if 'bucket' not in rec:
            continue
        out = mod.execute(rec['case'])
        hit = any(b == rec['bucket'] for b, _ in out.get('failures', ()))
        slug = re.sub(r'[^A-Za-z0-9]+', '_', rec['bucket']).strip('_')[:70]
        base = os.path.basename(f)
        if base.startswith('known_'):
            print(('reproduces ' if hit else 'STALE      ') + base)
            continue
        new = os.path.join(os.path.dirname(f), ('open_' if hit else 'fixed_') + slug + '.json')
        if base.startswith('fixed_') and not hit:
            new = f  # an already filed replay keeps its name (several replays may share one bucket)
        k_ = 2
        while new != f and os.path.exists(new):
            new = os.path.join(os.path.dirname(f), ('open_' if hit else 'fixed_') + slug + f'_{k_}.json')
            k_ += 1
        if new != f:
            os.rename(f, new)
        if hit:
            print('OPEN       ' + rec['bucket'] + '  -> needs a fix or a known entry')
            continue
        h, subj = commit_for(pid, rec['bucket'], os.path.basename(new), json.dumps(rec['case']))
        if h is None:
            print('UNMAPPED   ' + rec['bucket'])
            continue
        what = rec.get('message', '')
        what = re.sub(r'\s+', ' ', what)[:160]
        fixed_lines.append(f"fixed: property={pid} {h} {what} [bucket={rec['bucket']} replay=replays/{pid}/{os.path.basename(new)}]")
with open(KF, 'w') as f:
    for l in keep:
        f.write(l + '\n')
    for l in sorted(fixed_lines):
        f.write(l + '\n')
print('wrote', KF)

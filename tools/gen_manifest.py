"""Regenerate MANIFEST.json from the property modules present in props/."""
import glob, importlib, json, os, subprocess, sys
ROOT = os.path.dirname(os.path.dirname(os.path.abspath(__file__)))
sys.path.insert(0, ROOT)
from vlib import runner
runner.setup_path()
props = [json.loads(l) for l in open(os.path.join(ROOT, 'properties.jsonl'))]
checks, na = [], []
for p in props:
    pid = p['id']
    mods = glob.glob(os.path.join(ROOT, 'props', pid.lower() + '*.py'))
    if not mods:
        na.append({"property_id": pid, "reason": "check not built yet (planned, see DESIGN.md section 2)"})
        continue
    mod = importlib.import_module('props.' + os.path.basename(mods[0])[:-3])
    if getattr(mod, 'NOT_APPLICABLE', None):
        na.append({"property_id": pid, "reason": mod.NOT_APPLICABLE})
        continue
    checks.append({
        "property_id": pid,
        "quick_cmd": f"./check {pid} --tier quick",
        "thorough_cmd": f"./check {pid} --tier thorough",
        "evidence_file": f"/verif/evidence/{pid}.json",
        "replay_cmd_template": f"./check {pid} --replay {{path}}",
        "engine": "hypothesis-collect",
        "level_claimed": {"category": mod.LEVEL, "text": mod.LEVEL_TEXT, "design_ref": f"DESIGN.md section 2, {pid}"},
        "level_note": "holds on the cases explored only (no absence claim); trusted base: harness oracles (self-tested at start of every run), "
                      + getattr(mod, 'TRUSTED', 'CPython, numpy') ,
        "technique": mod.TECHNIQUE,
    })
log = subprocess.run(['git', '-C', '/repo', 'log', '--format=%h %s', 'ba80127..HEAD'], capture_output=True, text=True).stdout.splitlines()
man = {
    "version": 1,
    "setup_cmd": "./setup.sh",
    "hooks": {
        "guard": "ONNX_IR_PY_VERIF",
        "enable": "no source hooks: checks import onnx_ir from /repo/src in a fresh interpreter and patch module attributes from the harness side only; the guard name is reserved and unused",
        "baseline_off_cmd": "cd /repo && /venv/bin/python -m pytest -ra -q -p no:cacheprovider --timeout=900 --continue-on-collection-errors",
        "source_commits": [],
        "add_only": True,
    },
    "engines": [{
        "name": "hypothesis-collect", "path": "/verif/vlib/runner.py",
        "serves_properties": [c['property_id'] for c in checks],
        "kind_free_text": "Hypothesis-generated cases (seeded from VERIF_SEED, sharded over 16 processes) executed by per-property interpreters against explicit oracles; failures are bucketed, compared with known_findings.txt, shrunk by a structural ddmin and written as JSON replay files",
    }],
    "checks": checks,
    "not_applicable": na,
    "notes": "fix: commits in /repo (genuine defects repaired): " + "; ".join(log),
}
json.dump(man, open(os.path.join(ROOT, 'MANIFEST.json'), 'w'), indent=1)
print(len(checks), 'checks;', len(na), 'not applicable')

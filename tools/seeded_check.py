"""Run the checks against the seeded changes kept under seeded/<id>/ (patch.diff, demo.py, meta.json).

Each change was written by a fresh sub-agent that saw only the text of one property and a scratch worktree
of onnx/ir-py - nothing of /verif.  For every change this tool
  1. copies /repo (tracked files) to a scratch directory outside /repo and /verif and applies patch.diff there,
  2. runs demo.py against the clean and the changed tree (expects exit 0 / exit 1),
  3. runs the registered check(s) of the property against the changed tree (VERIF_REPO_SRC) and records whether a
     VIOLATION line was printed (exit 1), in which tier, and which buckets,
  4. removes the scratch copy and the replay files written for the change.

  tools/seeded_check.py [name-substr ...] [--tier quick|thorough] [--all-props] [--scale X] [--write]
With --write the outcome is stored in seeded/<id>/result.json (used for the table in DESIGN.md).
"""
import json, os, shutil, subprocess, sys, tempfile, time

ROOT = os.path.dirname(os.path.dirname(os.path.abspath(__file__)))
args = sys.argv[1:]
tier = 'quick'; allprops = False; write = False; scale = None; subs = []
while args:
    a = args.pop(0)
    if a == '--tier': tier = args.pop(0)
    elif a == '--all-props': allprops = True
    elif a == '--write': write = True
    elif a == '--scale': scale = args.pop(0)
    else: subs.append(a)
sdir = os.path.join(ROOT, 'seeded')
names = sorted(d for d in os.listdir(sdir) if os.path.isfile(os.path.join(sdir, d, 'patch.diff')))
if subs:
    names = [n for n in names if any(s in n for s in subs)]
ALL = [f'C{i:02d}' for i in range(1, 21)]
summary = []
for name in names:
    d = os.path.join(sdir, name)
    meta = json.load(open(os.path.join(d, 'meta.json')))
    prop = meta['property']
    scratch = tempfile.mkdtemp(prefix='verif_seed_')
    try:
        tree = os.path.join(scratch, 'tree')
        subprocess.run(['git', '-C', '/repo', 'worktree', 'add', '-q', '--detach', tree, 'HEAD'], check=True)
        # bring uncommitted changes of /repo along (checks rebuild from the working tree)
        wd = subprocess.run(['git', '-C', '/repo', 'diff', 'HEAD'], capture_output=True, text=True).stdout
        if wd.strip():
            subprocess.run(['git', '-C', tree, 'apply'], input=wd, text=True, check=True)
        demo = os.path.join(d, 'demo.py')
        env0 = dict(os.environ, PYTHONPATH=os.path.join(tree, 'src'), PYTHONHASHSEED='0')
        clean_rc = subprocess.run(['/venv/bin/python', demo], capture_output=True, text=True, env=env0, cwd=scratch).returncode if os.path.exists(demo) else None
        ap = subprocess.run(['git', '-C', tree, 'apply', os.path.join(d, 'patch.diff')], capture_output=True, text=True)
        if ap.returncode != 0:
            print(f'{name}: patch does not apply: {ap.stderr[:200]}')
            summary.append((name, prop, 'NOT-APPLIED', []))
            continue
        r = subprocess.run(['/venv/bin/python', demo], capture_output=True, text=True, env=env0, cwd=scratch) if os.path.exists(demo) else None
        changed_rc = r.returncode if r else None
        demo_line = (r.stdout.strip().splitlines() or [''])[-1][:200] if r else ''
        props = ALL if allprops else [prop] + [p for p in meta.get('also_check', [])]
        caught = []
        for p in props:
            env = dict(os.environ, VERIF_REPO_SRC=os.path.join(tree, 'src'), VERIF_SHRINK_S='5', VERIF_NO_EVIDENCE='1')
            if scale: env['VERIF_SCALE'] = scale
            t0 = time.time()
            c = subprocess.run([os.path.join(ROOT, 'check'), p, '--tier', tier], capture_output=True, text=True, env=env, cwd=ROOT)
            viol = [l for l in c.stdout.splitlines() if l.startswith('VIOLATION')]
            buckets = [l.strip().split(' count=')[0].replace('bucket=', '') for l in c.stdout.splitlines() if l.startswith('  bucket=')]
            status = 'CAUGHT' if (c.returncode == 1 and viol) else ('ERROR' if c.returncode == 2 else 'missed')
            caught.append(dict(check=p, tier=tier, status=status, buckets=buckets[:4], wall_s=round(time.time() - t0, 1)))
            if c.returncode == 2:
                print(c.stdout[-600:], c.stderr[-600:])
            rdir = os.path.join(ROOT, 'replays', p)
            if os.path.isdir(rdir):
                for f in os.listdir(rdir):
                    if f.startswith('violation_'):
                        os.remove(os.path.join(rdir, f))
        own = [c for c in caught if c['check'] == prop][0]
        print(f"{own['status']:7s} {name} demo clean/changed rc={clean_rc}/{changed_rc} :: " + '; '.join(f"{c['check']}:{c['status']}{c['buckets'][:2] if c['status']=='CAUGHT' else ''}" for c in caught))
        summary.append((name, prop, own['status'], caught))
        if write:
            json.dump(dict(name=name, property=prop, demo_clean_rc=clean_rc, demo_changed_rc=changed_rc, demo_output=demo_line, checks=caught),
                      open(os.path.join(d, 'result.json'), 'w'), indent=1)
    finally:
        subprocess.run(['git', '-C', '/repo', 'worktree', 'remove', '--force', os.path.join(scratch, 'tree')], capture_output=True)
        shutil.rmtree(scratch, ignore_errors=True)
        subprocess.run(['git', '-C', '/repo', 'worktree', 'prune'], capture_output=True)
missed = [n for n, _, s, _ in summary if s != 'CAUGHT']
print(f'{len(summary) - len(missed)}/{len(summary)} seeded changes caught by the check of their property ({tier}); not caught: {missed}')
sys.exit(1 if missed else 0)

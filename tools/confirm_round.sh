#!/bin/bash
# usage: confirm_round.sh <tag> <offset> ID...
tag=$1; off=$2; shift 2
cd /verif
for p in "$@"; do
  for k in 1 2 3; do
    d=/tmp/seed/${p}_${tag}/out/change_$k
    [ -f $d/patch.diff ] || continue
    n=${p}_$((off+k))
    CONFIRM_N=6 /venv/bin/python tools/confirm_seed.py $d $n
  done
done

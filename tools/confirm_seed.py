"""Confirm a candidate seeded change before it is kept under seeded/.

  tools/confirm_seed.py <candidate-dir> <name>

<candidate-dir> holds patch.diff, demo.py, meta.json as written by a sub-agent.  In a scratch git worktree of /repo
(outside /repo and /verif, removed afterwards) this
  1. runs demo.py on the clean tree (must exit 0),
  2. applies patch.diff (must apply), byte-compiles the package (must compile),
  3. runs the repository's test suite (must give the baseline: 3664 passed, 1 failed, 2 errors),
  4. runs demo.py on the changed tree (must exit 1).
Only then the candidate is copied to seeded/<name>/ with the confirmation recorded in meta.json.
"""
import json, os, re, shutil, subprocess, sys, tempfile

ROOT = os.path.dirname(os.path.dirname(os.path.abspath(__file__)))
cand, name = sys.argv[1], sys.argv[2]
scratch = tempfile.mkdtemp(prefix='verif_confirm_')
tree = os.path.join(scratch, 'tree')
ok = False
try:
    subprocess.run(['git', '-C', '/repo', 'worktree', 'add', '-q', '--detach', tree, 'HEAD'], check=True)
    env = dict(os.environ, PYTHONPATH=os.path.join(tree, 'src'), PYTHONHASHSEED='0')
    demo = os.path.join(cand, 'demo.py')
    r0 = subprocess.run(['/venv/bin/python', demo], capture_output=True, text=True, env=env, cwd=scratch, timeout=600)
    ap = subprocess.run(['git', '-C', tree, 'apply', os.path.join(cand, 'patch.diff')], capture_output=True, text=True)
    if ap.returncode != 0:
        print(f'{name}: REJECTED patch does not apply: {ap.stderr[:300]}'); sys.exit(1)
    touched = subprocess.run(['git', '-C', tree, 'diff', '--name-only'], capture_output=True, text=True).stdout.split()
    if any(t.endswith('_test.py') or t.startswith('tests/') for t in touched):
        print(f'{name}: REJECTED touches tests: {touched}'); sys.exit(1)
    comp = subprocess.run(['/venv/bin/python', '-m', 'compileall', '-q', os.path.join(tree, 'src', 'onnx_ir')], capture_output=True, text=True)
    t = subprocess.run(['/venv/bin/python', '-m', 'pytest', '-q', '-p', 'no:cacheprovider', '--color=no', '--timeout=900',
                        '--continue-on-collection-errors', '-n', os.environ.get('CONFIRM_N', '8')], capture_output=True, text=True, env=env, cwd=tree)
    tail = (t.stdout.strip().splitlines() or [''])[-1]
    m = re.search(r'(\d+) failed, (\d+) passed.*?(\d+) errors', tail)
    tests_ok = bool(m) and (int(m.group(1)), int(m.group(2)), int(m.group(3))) == (1, 3664, 2)
    r1 = subprocess.run(['/venv/bin/python', demo], capture_output=True, text=True, env=env, cwd=scratch, timeout=600)
    verdict = dict(demo_clean_rc=r0.returncode, demo_changed_rc=r1.returncode, compiles=comp.returncode == 0, tests_tail=tail, tests_ok=tests_ok,
                   demo_changed_output=(r1.stdout.strip().splitlines() or [''])[-1][:300])
    ok = r0.returncode == 0 and r1.returncode == 1 and comp.returncode == 0 and tests_ok
    print(f"{name}: {'CONFIRMED' if ok else 'REJECTED'} {json.dumps(verdict)}")
    if ok:
        dst = os.path.join(ROOT, 'seeded', name)
        os.makedirs(dst, exist_ok=True)
        shutil.copy(os.path.join(cand, 'patch.diff'), dst)
        shutil.copy(demo, dst)
        meta = json.load(open(os.path.join(cand, 'meta.json')))
        meta['confirmed'] = verdict
        meta['files'] = touched
        meta['base_commit'] = subprocess.run(['git', '-C', '/repo', 'rev-parse', '--short', 'HEAD'], capture_output=True, text=True).stdout.strip()
        json.dump(meta, open(os.path.join(dst, 'meta.json'), 'w'), indent=1)
finally:
    subprocess.run(['git', '-C', '/repo', 'worktree', 'remove', '--force', tree], capture_output=True)
    shutil.rmtree(scratch, ignore_errors=True)
    subprocess.run(['git', '-C', '/repo', 'worktree', 'prune'], capture_output=True)
sys.exit(0 if ok else 1)

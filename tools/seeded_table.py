"""Print the markdown table of seeded changes (seeded/<name>/meta.json + result.json) used in DESIGN.md section 6."""
import json, os

ROOT = os.path.dirname(os.path.dirname(os.path.abspath(__file__)))
sdir = os.path.join(ROOT, 'seeded')
rows = []
for name in sorted(os.listdir(sdir)):
    d = os.path.join(sdir, name)
    if not os.path.isfile(os.path.join(d, 'meta.json')):
        continue
    meta = json.load(open(os.path.join(d, 'meta.json')))
    res = json.load(open(os.path.join(d, 'result.json'))) if os.path.exists(os.path.join(d, 'result.json')) else {}
    checks = res.get('checks', [])
    own = [c for c in checks if c['check'] == meta['property']]
    others = [c['check'] for c in checks if c['check'] != meta['property'] and c['status'] == 'CAUGHT']
    status = own[0]['status'] if own else '?'
    buckets = ', '.join(f'`{b}`' for b in (own[0]['buckets'][:2] if own else []))
    note = meta.get('verif_note', '')
    summ = meta.get('summary', '').replace('|', '/').replace('\n', ' ')
    if len(summ) > 170:
        summ = summ[:167] + '...'
    needs = meta.get('needs', '').replace('|', '/').replace('\n', ' ')
    if len(needs) > 150:
        needs = needs[:147] + '...'
    rows.append(f"| {name} | {summ} | {needs} | {status}{' (' + own[0]['tier'] + ')' if own else ''}{'; also ' + ' '.join(others) if others else ''} | {buckets} {note} |")
print('| change | what was changed | needs | result | buckets / note |')
print('|---|---|---|---|---|')
print('\n'.join(rows))
caught = sum(1 for r in rows if '| CAUGHT' in r)
print(f'\n{caught}/{len(rows)} caught by the check of their own property.')

"""Rename replays/<ID>/violation_*.json into fixed_*/open_* according to whether they still reproduce
on the current tree.  Usage: tools/triage_replays.py C01"""
import importlib, json, os, re, sys, glob
sys.path.insert(0, os.path.dirname(os.path.dirname(os.path.abspath(__file__))))
from vlib import runner
runner.setup_path()
pid = sys.argv[1]
mod = importlib.import_module(glob.glob(os.path.join(runner.VERIF, 'props', pid.lower() + '*.py'))[0].split('/')[-1][:-3].join(['props.', '']))
for f in sorted(glob.glob(os.path.join(runner.VERIF, 'replays', pid, 'violation_*.json'))):
    rec = json.load(open(f))
    out = mod.execute(rec['case'])
    hit = any(b == rec['bucket'] for b, _ in out.get('failures', ()))
    slug = re.sub(r'[^A-Za-z0-9]+', '_', rec['bucket']).strip('_')[:60]
    new = os.path.join(os.path.dirname(f), ('open_' if hit else 'fixed_') + slug + '.json')
    os.rename(f, new)
    print(('OPEN  ' if hit else 'fixed ') + rec['bucket'])

#!/bin/bash
# Flake gate: every check, quick tier, at several seeds on the unchanged tree; any exit code != 0 is printed.
# usage: tools/flake_gate.sh "11 12 13" [ID ...]
cd "$(dirname "$0")/.."
seeds=${1:-"11 12 13 14 15"}; shift
ids=${@:-C01 C02 C03 C04 C05 C06 C07 C08 C09 C10 C11 C12 C13 C14 C15 C16 C17 C18 C19 C20}
bad=0
for s in $seeds; do
  for c in $ids; do
    out=$(VERIF_SEED=$s VERIF_NO_EVIDENCE=1 ./check $c --tier quick 2>&1); rc=$?
    line=$(echo "$out" | grep -v "^KNOWN-FINDING" | tail -n 1)
    echo "seed=$s $c rc=$rc $line"
    if [ $rc -ne 0 ]; then bad=1; echo "$out" | grep -A1 "VIOLATION\|HARNESS" | cut -c1-600; fi
  done
done
echo "flake gate finished, bad=$bad"
exit $bad
